//go:build verif

package builder

// Injected into package builder with `go test -overlay` (nothing is written into /repo): runs the real
// generator (real templates, real text/template, real TemplateBuilder) on the repository's example grammars in
// all four Go modes and in TypeScript and leaves the generated parsers in $GOVC_RENDER_OUT.

import (
	"fmt"
	"os"
	"path/filepath"
	"strings"
	"testing"

	utils "github.com/acekingke/yaccgo/Utils"
)

func TestGovcRender(t *testing.T) {
	out := os.Getenv("GOVC_RENDER_OUT")
	repo := os.Getenv("GOVC_REPO")
	if out == "" || repo == "" {
		t.Skip("GOVC_RENDER_OUT / GOVC_REPO not set")
	}
	files, _ := filepath.Glob(filepath.Join(repo, "examples", "*.y"))
	savedP, savedO, savedH := utils.PackFlags, utils.ObjectMode, utils.HttpDebug
	defer func() { utils.PackFlags, utils.ObjectMode, utils.HttpDebug = savedP, savedO, savedH }()
	n := 0
	for _, f := range files {
		src, err := os.ReadFile(f)
		if err != nil {
			t.Fatal(err)
		}
		base := strings.TrimSuffix(filepath.Base(f), ".y")
		// the TypeScript back end: the static driver text is the same for every grammar; user code (actions, prologue,
		// epilogue) is dropped by the extraction, so the Go examples serve as well as the TypeScript one
		func() {
			name := base + "_ts"
			defer func() {
				if r := recover(); r != nil {
					fmt.Printf("RENDER-SKIP %s: %v\n", name, r)
				}
			}()
			file := filepath.Join(out, name+".ts")
			if err := TsGenFromString(string(src), file); err != nil {
				fmt.Printf("RENDER-SKIP %s: %v\n", name, err)
				return
			}
			fmt.Printf("RENDERED %s\n", file)
		}()
		if base == "exprts" {
			continue // TypeScript actions
		}
		for _, pack := range []bool{true, false} {
			for _, obj := range []bool{false, true} {
				utils.PackFlags, utils.ObjectMode, utils.HttpDebug = pack, obj, false
				name := fmt.Sprintf("%s_pack%v_obj%v", base, pack, obj)
				file := filepath.Join(out, name+".go")
				func() {
					defer func() {
						if r := recover(); r != nil {
							fmt.Printf("RENDER-SKIP %s: %v\n", name, r)
						}
					}()
					if err := TemplateGenFromString(string(src), file); err != nil {
						fmt.Printf("RENDER-SKIP %s: %v\n", name, err)
						return
					}
					n++
					fmt.Printf("RENDERED %s\n", file)
				}()
			}
		}
	}
	if n == 0 {
		t.Fatal("nothing rendered")
	}
}
