#!/bin/sh
# builds the verifier from files on disk only (vendored golang.org/x/tools)
set -e
export GOFLAGS=-mod=vendor GOPROXY=off GOSUMDB=off GOTOOLCHAIN=local
cd /verif/govc
mkdir -p /verif/bin
go build -mod=vendor -o /verif/bin/govc .
