//go:build verif

package lalr

// Run-time evaluation of the C03 contracts on the real functions (BOUNDED stand-in, also used to find a concrete
// failing grammar when an obligation of the lookahead computation does not discharge):
//   * every lookback / includes pair produced satisfies the DeRemer-Pennello path condition,
//   * the lookahead set of every reduction equals the LALR(1) set obtained by merging canonical LR(1) states
//     (reference construction below) - this covers Digraph/Traverse/Union, which are not proved deductively.
// Space: a fixed list of grammars (including non-SLR ones) plus pseudo-random grammars with <= 3 nonterminals,
// <= 3 terminals, <= 5 rules (two thirds) or <= 5 nonterminals, <= 6 terminals, <= 9 rules (one third), right-hand sides of
// length <= 3 (GOVC_HARNESS_N of them, default 400).

import (
	"fmt"
	"math/rand"
	"os"
	"sort"
	"strconv"
	"strings"
	"testing"

	grammar "github.com/acekingke/yaccgo/Grammar"
	item "github.com/acekingke/yaccgo/Items"
	rule "github.com/acekingke/yaccgo/Rules"
	symbol "github.com/acekingke/yaccgo/Symbol"
)

type hRule struct {
	lhs string
	rhs []string
}

func hParse(src string) []hRule {
	var rs []hRule
	for _, part := range strings.Split(src, ";") {
		part = strings.TrimSpace(part)
		if part == "" {
			continue
		}
		i := strings.Index(part, ":")
		lhs := strings.TrimSpace(part[:i])
		for _, alt := range strings.Split(part[i+1:], "|") {
			rs = append(rs, hRule{lhs, strings.Fields(alt)})
		}
	}
	return rs
}

// hBuild mirrors Walker.BuildLALR1 (symbol layout: 0 start, 1 $, terminals, nonterminals); nil if the grammar is unusable
func hBuild(rules []hRule) (l *LALR1) {
	defer func() {
		if r := recover(); r != nil {
			l = nil
		}
	}()
	isNT := map[string]bool{}
	for _, r := range rules {
		isNT[r.lhs] = true
	}
	var terms, nts []string
	seen := map[string]bool{}
	add := func(s string) {
		if seen[s] {
			return
		}
		seen[s] = true
		if isNT[s] {
			nts = append(nts, s)
		} else {
			terms = append(terms, s)
		}
	}
	for _, r := range rules {
		add(r.lhs)
		for _, s := range r.rhs {
			add(s)
		}
	}
	g := grammar.NewGrammar()
	g.GenStartSymbol()
	g.InsertNewSymbol(symbol.NewSymbol(1, "$"))
	id := uint(1)
	for _, s := range append(append([]string{}, terms...), nts...) {
		id++
		sy := symbol.NewSymbol(id, s)
		if isNT[s] {
			sy.SetNT()
		}
		g.InsertNewSymbol(sy)
	}
	g.InsertNewRules(rule.NewProductoinRule(g.StartSymbol, []*symbol.Symbol{g.FindSymbolByName(rules[0].lhs)}))
	for _, r := range rules {
		var rhs []*symbol.Symbol
		for _, s := range r.rhs {
			rhs = append(rhs, g.FindSymbolByName(s))
		}
		g.InsertNewRules(rule.NewProductoinRule(g.FindSymbolByName(r.lhs), rhs))
	}
	g.ResolveSymbols()
	g.CalculateEpsilonClosure()
	if len(g.CalculateCanTerminate()) != 0 {
		return nil
	}
	ic := item.NewItemCloure()
	ic.InsertItem(item.NewItem(0, 0))
	g.ComputeIClosure(ic)
	g.LR0.InsertItemClosure(ic, true)
	g.ComputeAllGoto()
	l = NewLALR(&g)
	l.BuildTrans()
	l.CalcDR()
	l.CalcReadSet()
	l.CalcFollowSet()
	l.CalcLookAheadSet()
	return l
}

func hStep(l *LALR1, q int, x int) int {
	for _, tr := range l.trans {
		if tr.q == q && tr.sym_or_rule&CheckMask == 0 && int(tr.sym_or_rule) == x {
			return tr.to
		}
	}
	return -1
}

func hWalk(l *LALR1, q int, r int, k int) int {
	for i := 0; i < k && q >= 0; i++ {
		q = hStep(l, q, int(l.G.ProductoinRules[r].RighPart[i].ID))
	}
	return q
}

// reference: canonical LR(1) collection merged by core
type h1 struct{ r, d, la int }

func hReference(l *LALR1) map[[2]int]map[int]bool {
	g := l.G
	rules := g.ProductoinRules
	nullable := func(s *symbol.Symbol) bool { return s.IsNonTerminator && s.IsEpsilonClosure }
	first := map[uint]map[int]bool{}
	for _, s := range g.Symbols {
		first[s.ID] = map[int]bool{}
		if !s.IsNonTerminator {
			first[s.ID][int(s.ID)] = true
		}
	}
	for changed := true; changed; {
		changed = false
		for _, r := range rules {
			for _, s := range r.RighPart {
				for t := range first[s.ID] {
					if !first[r.LeftPart.ID][t] {
						first[r.LeftPart.ID][t] = true
						changed = true
					}
				}
				if !nullable(s) {
					break
				}
			}
		}
	}
	firstSeq := func(seq []*symbol.Symbol, la int) map[int]bool {
		out := map[int]bool{}
		for _, s := range seq {
			for t := range first[s.ID] {
				out[t] = true
			}
			if !nullable(s) {
				return out
			}
		}
		out[la] = true
		return out
	}
	closure := func(set map[h1]bool) map[h1]bool {
		work := []h1{}
		for it := range set {
			work = append(work, it)
		}
		for len(work) > 0 {
			it := work[len(work)-1]
			work = work[:len(work)-1]
			rhs := rules[it.r].RighPart
			if it.d >= len(rhs) || !rhs[it.d].IsNonTerminator {
				continue
			}
			for la := range firstSeq(rhs[it.d+1:], it.la) {
				for ri, r := range rules {
					if r.LeftPart.ID == rhs[it.d].ID {
						n := h1{ri, 0, la}
						if !set[n] {
							set[n] = true
							work = append(work, n)
						}
					}
				}
			}
		}
		return set
	}
	key := func(set map[h1]bool) string {
		var ks []string
		for it := range set {
			ks = append(ks, fmt.Sprintf("%d.%d.%d", it.r, it.d, it.la))
		}
		sort.Strings(ks)
		return strings.Join(ks, " ")
	}
	start := closure(map[h1]bool{{0, 0, 1}: true})
	states := []map[h1]bool{start}
	index := map[string]int{key(start): 0}
	for i := 0; i < len(states); i++ {
		bySym := map[uint]map[h1]bool{}
		for it := range states[i] {
			rhs := rules[it.r].RighPart
			if it.d < len(rhs) {
				if bySym[rhs[it.d].ID] == nil {
					bySym[rhs[it.d].ID] = map[h1]bool{}
				}
				bySym[rhs[it.d].ID][h1{it.r, it.d + 1, it.la}] = true
			}
		}
		for _, kernel := range bySym {
			n := closure(kernel)
			k := key(n)
			if _, ok := index[k]; !ok {
				index[k] = len(states)
				states = append(states, n)
			}
		}
	}
	// merge by core onto the LR(0) states of the generator
	coreKey := func(items [][2]int) string {
		sort.Slice(items, func(a, b int) bool {
			if items[a][0] != items[b][0] {
				return items[a][0] < items[b][0]
			}
			return items[a][1] < items[b][1]
		})
		var sb strings.Builder
		last := [2]int{-1, -1}
		for _, it := range items {
			if it != last {
				fmt.Fprintf(&sb, "%d.%d ", it[0], it[1])
				last = it
			}
		}
		return sb.String()
	}
	lr0 := map[string]int{}
	for si, st := range g.LR0.LR0Closure {
		var items [][2]int
		for _, it := range st.Items {
			items = append(items, [2]int{it.RuleIndex, it.Dot})
		}
		lr0[coreKey(items)] = si
	}
	ref := map[[2]int]map[int]bool{}
	for _, st := range states {
		var items [][2]int
		for it := range st {
			items = append(items, [2]int{it.r, it.d})
		}
		si, ok := lr0[coreKey(items)]
		if !ok {
			return nil // LR(0) collection itself is not canonical: reported under C09
		}
		for it := range st {
			if it.d == len(rules[it.r].RighPart) {
				k := [2]int{si, it.r}
				if ref[k] == nil {
					ref[k] = map[int]bool{}
				}
				ref[k][it.la] = true
			}
		}
	}
	return ref
}

func hCheck(l *LALR1) string {
	rules := l.G.ProductoinRules
	for _, rel := range l.CalcLookbacks() {
		x, y := l.trans[rel.x], l.trans[rel.y]
		r := int(x.sym_or_rule & Mask)
		if hWalk(l, y.q, r, len(rules[r].RighPart)) != x.q {
			return fmt.Sprintf("lookback (%s) -> (%s): the path over the rule's right-hand side from state %d does not end in state %d", l.showTrans(rel.x), l.showTrans(rel.y), y.q, x.q)
		}
	}
	for k := range l.DRSet {
		for _, rel := range l.CaclIncludeRelation(k) {
			p, pp := l.trans[rel.x], l.trans[rel.y]
			ok := false
			for ri, r := range rules {
				if uint(pp.sym_or_rule) != r.LeftPart.ID {
					continue
				}
				for d, s := range r.RighPart {
					if uint(p.sym_or_rule) == s.ID && l.seqenceCanEpsilon(r.RighPart[d+1:]) && hWalk(l, pp.q, ri, d) == p.q {
						ok = true
					}
				}
			}
			if !ok {
				return fmt.Sprintf("includes (%s) -> (%s): no rule B -> beta A gamma with gamma nullable and a path beta from state %d to state %d", l.showTrans(rel.x), l.showTrans(rel.y), pp.q, p.q)
			}
		}
	}
	ref := hReference(l)
	if ref == nil {
		return ""
	}
	for _, tr := range l.fetchReduceTransistor() {
		r := int(tr.sym_or_rule & Mask)
		got := map[int]bool{}
		for _, t := range l.LookAheadSet[tr.Index] {
			got[t] = true
		}
		want := ref[[2]int{tr.q, r}]
		for t := range want {
			if !got[t] {
				return fmt.Sprintf("state %d, rule %d: LALR(1) lookahead %s is missing", tr.q, r, l.G.Symbols[t].Name)
			}
		}
		for t := range got {
			if !want[t] {
				return fmt.Sprintf("state %d, rule %d: %s is not an LALR(1) lookahead but was computed", tr.q, r, l.G.Symbols[t].Name)
			}
		}
	}
	return hTableCheck(l, ref)
}

// hTableCheck (C02, C01 at table level, BOUNDED): for a grammar without LALR(1) conflicts the dense table must hold
// exactly the LALR(1) actions, and the table-driven parse must accept every sentence of length <= 4 that a bounded
// leftmost derivation search produces.
func hTableCheck(l *LALR1, ref map[[2]int]map[int]bool) string {
	g := l.G
	rules := g.ProductoinRules
	ns := len(g.LR0.LR0Closure)
	// expected actions per cell
	type act struct{ kind, arg int } // 1 shift/goto, 2 reduce
	want := map[[2]int][]act{}
	for si, st := range g.LR0.LR0Closure {
		for _, gt := range st.GoTo {
			want[[2]int{si, int(gt.Sym.ID)}] = append(want[[2]int{si, int(gt.Sym.ID)}], act{1, gt.ItemCl})
		}
	}
	for k, las := range ref {
		for la := range las {
			want[[2]int{k[0], la}] = append(want[[2]int{k[0], la}], act{2, k[1]})
		}
	}
	for _, as := range want {
		if len(as) > 1 {
			return "" // conflict: C02 says nothing
		}
	}
	tab, err := l.GenTable()
	if err != nil {
		return "GenTable failed: " + err.Error()
	}
	for si := 0; si < ns; si++ {
		for a := 0; a < len(g.Symbols); a++ {
			exp := ns + 100
			if as := want[[2]int{si, a}]; len(as) == 1 {
				switch {
				case as[0].kind == 1:
					exp = as[0].arg
				case as[0].arg == 0:
					exp = ns + 200
				default:
					exp = -as[0].arg
				}
			}
			if tab[si][a] != exp {
				return fmt.Sprintf("conflict-free grammar: table[%d][%s] = %d, the LALR(1) action is %d", si, g.Symbols[a].Name, tab[si][a], exp)
			}
		}
	}
	// sentences by bounded leftmost derivation
	type form []int
	sentences := map[string][]int{}
	queue := []form{{int(rules[0].RighPart[0].ID)}}
	seen := map[string]bool{}
	for steps := 0; len(queue) > 0 && steps < 4000; steps++ {
		f := queue[0]
		queue = queue[1:]
		pos := -1
		for i, s := range f {
			if g.Symbols[s].IsNonTerminator {
				pos = i
				break
			}
		}
		if pos < 0 {
			if len(f) <= 4 {
				sentences[fmt.Sprint(f)] = f
			}
			continue
		}
		for _, r := range rules[1:] {
			if int(r.LeftPart.ID) != f[pos] {
				continue
			}
			n := append(form{}, f[:pos]...)
			for _, s := range r.RighPart {
				n = append(n, int(s.ID))
			}
			n = append(n, f[pos+1:]...)
			nt := 0
			for _, s := range n {
				if !g.Symbols[s].IsNonTerminator {
					nt++
				}
			}
			if len(n) <= 7 && nt <= 4 && !seen[fmt.Sprint(n)] {
				seen[fmt.Sprint(n)] = true
				queue = append(queue, n)
			}
		}
	}
	for _, w := range sentences {
		toks := append(append([]int{}, w...), 1)
		stack := []int{0}
		pos := 0
		ok := false
		for steps := 0; steps < 10000; steps++ {
			a := tab[stack[len(stack)-1]][toks[pos]]
			if a == ns+100 {
				break
			} else if a == ns+200 {
				ok = pos == len(toks)-1
				break
			} else if a > 0 {
				stack = append(stack, a)
				pos++
			} else {
				r := rules[-a]
				stack = stack[:len(stack)-len(r.RighPart)]
				gt := tab[stack[len(stack)-1]][r.LeftPart.ID]
				if gt <= 0 || gt >= ns {
					break
				}
				stack = append(stack, gt)
			}
		}
		if !ok {
			var names []string
			for _, t := range w {
				names = append(names, g.Symbols[t].Name)
			}
			return fmt.Sprintf("conflict-free grammar: the sentence [%s] is rejected by the table-driven parse", strings.Join(names, " "))
		}
	}
	return ""
}

func hShow(rules []hRule) string {
	var sb strings.Builder
	for _, r := range rules {
		fmt.Fprintf(&sb, "%s: %s; ", r.lhs, strings.Join(r.rhs, " "))
	}
	return sb.String()
}

func TestGovcHarness(t *testing.T) {
	fixed := []string{
		"S: a A c | a B d | b A d; A: e; B: e",
		"S: L eq R | R; L: star R | id; R: L",
		"E: E plus T | T; T: T mul F | F; F: lp E rp | id",
		"S: A a | b A c | d c | b d a; A: d",
		"S: A B; A: | a; B: | b",
		"S: S c | b c",
		"S: X Y Z; X: | x; Y: | y X; Z: z | Z z",
		"S: a S b | ",
		"P: P E n | ; E: E p E | n",
	}
	n := 0
	for _, src := range fixed {
		rules := hParse(src)
		l := hBuild(rules)
		if l == nil {
			continue
		}
		n++
		if why := hCheck(l); why != "" {
			fmt.Printf("FAILING-INPUT: grammar { %s}: %s\n", hShow(rules), why)
			return
		}
	}
	N := 400
	if v, err := strconv.Atoi(os.Getenv("GOVC_HARNESS_N")); err == nil {
		N = v
	}
	seed := int64(1)
	if v, err := strconv.ParseInt(os.Getenv("VERIF_SEED"), 10, 64); err == nil {
		seed = v
	}
	rnd := rand.New(rand.NewSource(seed))
	nts := []string{"S", "A", "B", "C", "D"}
	ts := []string{"a", "b", "c", "d", "e", "f"}
	for i := 0; i < N; i++ {
		// two thirds small grammars (<= 3 nonterminals, <= 3 terminals, <= 5 rules), one third larger ones
		maxN, maxT, maxR := 3, 3, 6
		if i%3 == 2 {
			maxN, maxT, maxR = 5, 6, 10
		}
		nn := 1 + rnd.Intn(maxN)
		nr := nn + rnd.Intn(maxR-nn)
		var rules []hRule
		for k := 0; k < nr; k++ {
			lhs := nts[k%nn]
			if k >= nn {
				lhs = nts[rnd.Intn(nn)]
			}
			var rhs []string
			for j := rnd.Intn(4); j > 0; j-- {
				if rnd.Intn(2) == 0 {
					rhs = append(rhs, nts[rnd.Intn(nn)])
				} else {
					rhs = append(rhs, ts[rnd.Intn(maxT)])
				}
			}
			rules = append(rules, hRule{lhs, rhs})
		}
		l := hBuild(rules)
		if l == nil || len(l.G.LR0.LR0Closure) > 60 {
			continue
		}
		n++
		if why := hCheck(l); why != "" {
			fmt.Printf("FAILING-INPUT: grammar { %s}: %s\n", hShow(rules), why)
			return
		}
	}
	fmt.Printf("HARNESS-OK: %d grammars checked against the path conditions and the LR(1)-merge reference\n", n)
}
