//go:build verif

package utils

// Run-time evaluation of PackTable's contract (the same postconditions as in contracts_verif.go) on the real
// function over an exhaustive small space: all matrices with 1..3 rows, 1..4 columns, entries in {0,5,7}
// (bounded; used to find a concrete failing input when an obligation of PackTable does not discharge).

import (
	"fmt"
	"testing"
)

func govcPackPost(table [][]int) (ok bool, why string) {
	defer func() {
		if r := recover(); r != nil {
			ok, why = false, fmt.Sprint("panic: ", r)
		}
	}()
	cp := make([][]int, len(table))
	for i := range table {
		cp[i] = append([]int(nil), table[i]...)
	}
	ret, row, check := PackTable(cp)
	if len(row) != len(table) || len(ret) != len(check) {
		return false, "lengths"
	}
	for i := range table {
		for j := range table[i] {
			p := row[i] + j
			if table[i][j] != 0 {
				if !(0 <= p && p < len(check) && check[p] == i && ret[p] == table[i][j]) {
					return false, fmt.Sprintf("entry (%d,%d)=%d not retrievable: ret=%v row=%v check=%v", i, j, table[i][j], ret, row, check)
				}
			} else if 0 <= p && p < len(check) && check[p] == i {
				return false, fmt.Sprintf("blank (%d,%d) claimed by row %d", i, j, i)
			}
		}
	}
	return true, ""
}

func TestGovcHarness(t *testing.T) {
	vals := []int{0, 5, 7}
	n := 0
	for rows := 1; rows <= 3; rows++ {
		for cols := 1; cols <= 4; cols++ {
			cells := rows * cols
			total := 1
			for i := 0; i < cells; i++ {
				total *= len(vals)
			}
			for code := 0; code < total; code++ {
				c := code
				table := make([][]int, rows)
				for i := range table {
					table[i] = make([]int, cols)
					for j := range table[i] {
						table[i][j] = vals[c%len(vals)]
						c /= len(vals)
					}
				}
				n++
				if ok, why := govcPackPost(table); !ok {
					fmt.Printf("FAILING-INPUT: PackTable(%v): %s\n", table, why)
					return
				}
			}
		}
	}
	fmt.Printf("HARNESS-OK: %d matrices\n", n)
}
