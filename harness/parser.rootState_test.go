//go:build verif

package parser

// Bounded stand-in for "Parse terminates on every input text" (C13): every string of up to 3 fragments from a
// fixed alphabet of grammar fragments (directives, brackets, literals, comment openers, ...) is parsed under a
// watchdog. BOUNDED: 18 fragments (incl. a non-ASCII digit), length <= 3 (6 174 inputs); used to find a concrete hanging input.

import (
	"fmt"
	"testing"
	"time"
)

var govcFragments = []string{"%start", "%token", "%type", "%left", "<", ">", "x", "'c'", "%%", "{", "/*", "\"", "%union", ":", "\u0663", "7", "$", "-"}

func govcTerminates(input string) bool {
	done := make(chan struct{})
	go func() {
		defer func() { recover(); close(done) }()
		ParseAndBuild(input)
	}()
	select {
	case <-done:
		return true
	case <-time.After(400 * time.Millisecond):
		return false
	}
}

func TestGovcHarness(t *testing.T) {
	n := 0
	var rec func(prefix string, depth int) bool
	rec = func(prefix string, depth int) bool {
		if depth > 0 {
			n++
			if !govcTerminates(prefix) {
				fmt.Printf("FAILING-INPUT: Parse(%q) does not terminate (still running after 400ms)\n", prefix)
				return false
			}
		}
		if depth == 3 {
			return true
		}
		for _, f := range govcFragments {
			if !rec(prefix+f+" ", depth+1) {
				return false
			}
		}
		return true
	}
	if rec("", 0) {
		fmt.Printf("HARNESS-OK: %d inputs\n", n)
	}
}
