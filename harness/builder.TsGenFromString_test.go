//go:build verif

package builder

// Run-time evaluation of the C19 contract on the real generator: for a list of grammars that must be rejected
// (lexical error, syntax error, undefined symbol, unproductive nonterminal, $n out of range above and below)
// an existing output file must keep its bytes. Bounded (fixed list); used to find a concrete failing input.

import (
	"bytes"
	"fmt"
	"os"
	"path/filepath"
	"testing"
)

func TestGovcHarness(t *testing.T) {
	head := "%{\npackage main\n%}\n%union {\n\tval int\n}\n%type\t<val>\tE\n%token '+'\n%left '+'\n%token\t<val>\tNUM\n%start E\n%%\n"
	tail := "\n%%\nfunc main() {}\n"
	bad := map[string]string{
		"lexical":      head + "E: NUM # { $$ = $1 }\n" + tail,
		"unclosed":     head + "E: NUM { $$ = $1 \n",
		"undefined":    head + "E: E '+' F { $$ = $1 }\n | NUM { $$ = $1 }\n" + tail,
		"unproductive": head + "E: E '+' NUM { $$ = $1 }\n" + tail,
		"dollar-high":  head + "E: E '+' E { $$ = $1 + $3 }\n | NUM { $$ = $3 }\n" + tail,
		"dollar-zero":  head + "E: E '+' E { $$ = $1 + $3 }\n | NUM { $$ = $0 }\n" + tail,
		"dollar-00":    head + "E: E '+' E { $$ = $1 + $3 }\n | NUM { $$ = $00 }\n" + tail,
		"no-start":     "%token A\n%%\ns : A ;\n%%\n",
	}
	dir := t.TempDir()
	for _, gen := range []struct {
		name string
		f    func(string, string) error
	}{{"go", TemplateGenFromString}, {"typescript", TsGenFromString}} {
		for name, g := range bad {
			out := filepath.Join(dir, gen.name+"-"+name+".out")
			before := []byte("precious existing output\n")
			os.WriteFile(out, before, 0o644)
			func() {
				defer func() { recover() }()
				gen.f(g, out)
			}()
			after, _ := os.ReadFile(out)
			if !bytes.Equal(before, after) {
				// only a violation if generation actually failed: a success legitimately rewrites the file
				failed := true
				func() {
					defer func() {
						if r := recover(); r != nil {
							failed = true
						}
					}()
					if err := gen.f(g, filepath.Join(dir, "probe.out")); err == nil {
						failed = false
					}
				}()
				if failed {
					fmt.Printf("FAILING-INPUT: generate %s with grammar %q (%s): generation fails but the existing output file changed from %d to %d bytes\n", gen.name, g, name, len(before), len(after))
					return
				}
			}
		}
	}
	fmt.Println("HARNESS-OK")
}
