#!/bin/sh
# usage: tools/reconfirm_seed.sh <seed-name>     re-confirms /verif/seeded/<name> against the CURRENT /repo HEAD
# (rebasing the patch with fuzz if needed and rewriting patch.diff when that succeeds)
export GOFLAGS=-mod=mod GOPROXY=off GOSUMDB=off GOTOOLCHAIN=local
name="$1"; dir=/verif/seeded/$name
wt=$(mktemp -d /tmp/govc-reconf-XXXXXX); rmdir "$wt"
git -C /repo worktree add -q --detach "$wt" HEAD || exit 2
cleanup() { git -C /repo worktree remove --force "$wt"; }
dests=$(python3 -c "import json;print(' '.join(json.load(open('$dir/meta.json'))['demo_files_dest']))")
cmd=$(python3 -c "import json;print(json.load(open('$dir/meta.json'))['demo_cmd'].replace('<worktree>','$wt'))")
for d in $dests; do cp "$dir/$(basename $d)" "$wt/$d"; done
(cd "$wt" && sh -c "$cmd") >/tmp/reconf.without 2>&1; rc0=$?
rebased=0
if ! git -C "$wt" apply "$dir/patch.diff" 2>/dev/null; then
  if (cd "$wt" && patch -p1 -F3 -s < "$dir/patch.diff" >/dev/null 2>&1); then rebased=1; find "$wt" -name '*.orig' -delete; else echo "$name: PATCH DOES NOT APPLY even with fuzz"; cleanup; exit 1; fi
fi
for d in $dests; do mv "$wt/$d" "$wt/$d.aside"; done
(cd "$wt" && go build ./... && go test -vet=off -count=1 ./...) >/tmp/reconf.tests 2>&1; rct=$?
for d in $dests; do mv "$wt/$d.aside" "$wt/$d"; done
(cd "$wt" && sh -c "$cmd") >/tmp/reconf.with 2>&1; rc1=$?
echo "$name: without=$rc0 tests=$rct with=$rc1 rebased=$rebased"
if [ $rc0 -eq 0 ] && [ $rct -eq 0 ] && [ $rc1 -ne 0 ]; then
  if [ $rebased -eq 1 ]; then
    for d in $dests; do mv "$wt/$d" "$wt/$d.aside"; done
    git -C "$wt" diff > "$dir/patch.diff"
    python3 - "$dir/meta.json" <<'P'
import json,sys
m=json.load(open(sys.argv[1])); m['rebased']="patch re-applied with fuzz onto a later /repo HEAD (after fix commits) and re-confirmed with tools/reconfirm_seed.sh"; json.dump(m,open(sys.argv[1],'w'),indent=1)
P
  fi
  echo "$name: RECONFIRMED"
else
  echo "$name: NOT RECONFIRMED"; tail -3 /tmp/reconf.without /tmp/reconf.with
fi
cleanup
