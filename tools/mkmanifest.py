#!/usr/bin/env python3
"""Regenerates /verif/MANIFEST.json from the table below; validates against the schema when jsonschema is available."""
import json, subprocess, sys
props = [json.loads(l)['id'] for l in open('/verif/properties.jsonl')]

TB = ("Trusted: govc (own VC generator over go/ast+go/types; value model for slices/maps under a no-aliasing discipline), "
      "z3 4.8.12 / z3 5.1.0 / cvc5 1.0.3, go/types; integers mathematical; strings uninterpreted. ")

DRV = ("The generated parsers are verified as rendered text: on every run an injected test runs the real generator on the example grammars in all four "
       "Go modes; the static driver functions (Action, PushStateSym, PopStateSym, ParserInit, ReduceFunc shell, Parser, fetchLookAhead, TraceShift) of the "
       "goCode and goObject renderings, packed and unpacked, are put under ONE contract text (goObject through renamings) and every obligation is discharged "
       "by SMT; the per-rule reduce cases are replaced mechanically by one schematic case whose holes are tied to the grammar by `emits` obligations on "
       "buildReduceFunc/buildConstPart, and every rendered case must have that shape. The TypeScript driver is handled the same way: the real TsGenFromString is run on every example, "
       "the static pieces of the emitted text (class StateSym, PushStateSym, PopStateSym, initialize, Parser, fetchLookAhead, the frames of ReduceFunc and translate) are transliterated "
       "line by line into Go by nine syntactic rules (govc/tsrender.go; objects become pointers) and verified against the clauses of the Go drivers restated over a stack of references "
       "(section ts of Builder/driver_contracts_verif.go); text outside the rules is reported, not guessed. ")
STAGES = ("This end-to-end property also depends on every stage between the grammar text and the tables; the stage contracts are discharged in the same run (`govc -with`) "
          "and reported under this property: token definitions, codes and tags (lexer literal token, parseTokendef, parsePrecList, parseRule, astDeclareVistor.Process, BuildLALR1, "
          "translate builders - the C11 contracts), usability checks and nullable/productive fixpoints (C12), the LR(0) leaf functions and local worklist steps (C09: ComputeIClosure = "
          "least closed superset, CheckIsExist exact, ...), the relation builders (C03: BuildTrans, direct reads, reads, includes, lookback - exact), conflict resolution and precedence "
          "attachment (C04), table splitting and packing (C05: packed lookup == dense table). ")
DRVNOTE = (TB + "Hypotheses used as axioms (not proved here): the LR(0)-automaton facts AP0-AP2 and the table encoding TC/TCgoto/TC0 (DESIGN §4; postconditions of "
       "GenTable / the LR(0) construction, which are not yet under contract), SIZES, INV-R for goto lookups in packed mode, packed-lookup == dense table "
       "(TrySplitTable's proved postcondition, assumed at the interface). Trusted contracts: translate, GetToken (user code), TraceTranslate, TraceReduce, "
       "actionCodeReplace; assumption A-act (semantic actions touch only $$/$n). Interior pointers &stack[i] are modelled as snapshots; slice capacity/aliasing "
       "is not modelled. Literature lemma (stated, not mechanised): a shift-reduce run whose every reduction pops rhs(r) and pushes lhs(r) is a reversed rightmost derivation. "
       "TypeScript: what is verified is the transliteration described above; dropped are comments, semicolons, the user's prologue / epilogue / union members / action bodies and the numbers "
       "of the table literal; not captured: number is a double, an out-of-range array read yields undefined (every read is proved in range), undefined == null == nil.")
claimed = {
 "C18": dict(
   text="Deductive proof that the DOT diagram is drawn from the same dense table the generated parser uses. Calls into gographviz are recorded in a ghost "
        "call log; DrawGrammar is proved to add one node per state, in state order, under the name state_<n>, built from that state's items (StateGraphNode: "
        "StateNumber == Index, one child per item); per row: an edge (state_s -> state_d, symbol name) for exactly the cells that hold a state number, a field "
        "`<symbol>: reduce rule at <r>` for exactly the cells that hold -r, the fill decoration iff the row has the accept code, and the node label is "
        "extended by all reduce fields whenever there is at least one (also in the accepting state). AddEdge / GenDotGraph are proved to pass exactly these "
        "names and labels to gographviz. ShowCloure (debug listing) prints state number, left-hand side, the symbols before/after the dot and `at X goto n` "
        "from the same structures; ShowLookAheadSet / ShowDrSet / ShowReadSet print ONE line per entry of the set map, with the transition and the names of ALL its symbols in order "
        "(ghost print log), so no reduction or lookahead of the tables is missing from the listing. The contracts of the stages that produce what is drawn and listed - LR(0) "
        "construction (C09), relation builders (C03), table splitting and packing (C05: the dense table that is drawn is not overwritten afterwards) - are discharged in the same run.",
   note=TB + "Trusted: gographviz itself (AddNode makes the node retrievable under its name - an explicit `assumes` clause), graph.NewGraph, fmt.Sprintf / strings.* as pure functions. "
        "No longer trusted: the item text (ItemToStr: `lhs-\\>`, a bullet before the symbol at the dot or at the end, ε for an empty rule), the transition text (showTrans) and the display "
        "name function (utils.RemoveTempName) are proved against recursive specification functions. "
        "ShowFollowSet (prints a []string with %v) is not under contract.",
   design="§5 C18", technique="contract-based deductive verification with a ghost log of external calls"),
 "C02": dict(
   text="Completeness is cut along the pipeline. Deductively proved on the real code: the lookback / includes relations satisfy the DeRemer-Pennello "
        "path conditions (C03; found and fixed: they were ignored), Union is set union and never aliases its first argument (the finished set of another "
        "node), GenTable encodes each cell as error / accept / shift target / -rule of a transition of that state under its lookahead with column 0 = error "
        "and no zero cell, CheckAndResolveConflict's surviving action is a candidate of its cell, the packed lookup equals the dense table (C05), and the "
        "generated driver executes the table (C01). A BOUNDED stand-in closes the gap end to end: for conflict-free grammars the dense table must equal the "
        "LALR(1) table built by merging canonical LR(1) states, and the table-driven parse must accept every sentence of length <= 4 found by a bounded derivation search. "
        "Since the first version: lookback and includes are proved COMPLETE as well (every pair that satisfies the DeRemer-Pennello condition is produced), the direct-read sets are "
        "exact with one array per entry, BuildTrans ties the transition list to the automaton, the generated Action() is verified under this property. " + STAGES,
   note=TB + "NOT proved deductively (bounded stand-in only: 9 fixed grammars + 400 pseudo-random grammars quick / 20000 thorough, <= 5 nonterminals, <= 6 terminals, "
        "<= 9 rules): Digraph/Traverse, CalcLookAheadSet's use of it, the worklist of the LR(0) construction as a whole. Proved since: the reads relation is exact; NOTHING IS DROPPED between "
        "the transition list and the table - every transition of a state is handed to the conflict resolution, every shift symbol and every reduce lookahead gets a cell there, and "
        "every cell whose surviving action is not the %nonassoc ERROR action is written into the row. "
        "Literature theorems used, not mechanised: DeRemer-Pennello, and that LALR(1) tables accept exactly L(G).",
   design="§5 C02", technique="contract-based deductive verification of the pipeline stages + bounded run-time contract evaluation end to end"),
 "C12": dict(
   text="Deductive proof that the productive-nonterminal and nullable computations are least fixpoints in the sense the property needs: when "
        "CalculateCanTerminate / CalculateEpsilonClosure stop, every rule whose right-hand side is all marked has a marked left-hand side (closed); a symbol is "
        "marked only at a moment when the whole right-hand side of one of its rules is already marked (justified - this is the clause a skipped self-reference "
        "breaks); marks are never removed and nothing else is written (frame); the returned list is exactly the unmarked nonterminals of VnSet, so generation is "
        "refused iff some nonterminal is unproductive.",
   note=TB + "That closed + justified-at-marking-time implies LEAST fixpoint is the standard ranking argument, stated not mechanised. Termination of the fixpoint loops is "
        "not proved. Also proved: RuleVistor.Process appends a right-hand-side symbol only if it is in the identifier table and otherwise stops with the panic `It's not define symbol` (may_panic contract). BuildLALR1: a nonterminal identifier becomes a nonterminal symbol; the LR(0) construction is reached only if every nonterminal symbol is the left-hand side of a rule "
        "and CalculateCanTerminate returned the empty list, otherwise generation stops with its message. ComputeAllGoto: the refusal `too manay states!` is reached only when the number of STATES is >= 2000 (the limit the property names); that a grammar below it never trips other limits is by reading.",
   design="§5 C12", technique="contract-based deductive verification (loop invariants + statement-level assertions)"),
 "C17": dict(
   text=DRV + "C17: fmt.Printf is modelled by a ghost output log. TraceShift is proved to log exactly (name of the pushed symbol, pushed state); PushStateSym logs exactly "
        "one such line per push, for the entry it pushes; in Parser the reduce line is logged after the reduction and before the goto push and carries the rule actually "
        "reduced, the state actually pushed and the name of the lookahead that triggered it. Generator side: buildTranslate emits symbol id -> RemoveTempName(name) and "
        "case i -> text of visitor rule i-1 - left-hand side AND the display names of all right-hand-side symbols in order; RemoveTempName is proved to show a character literal "
        "as 'c' and every other name unchanged; grammar rule i is paired with visitor rule i-1 (BuildLALR1: no rule dropped or reordered). " + STAGES,
   note=DRVNOTE + " TraceReduce and TraceTranslate are the generated switches: their frame is checked on every rendering (extraction obligation shape:translate-cases: nothing but `case <int>:` with one literal print / assignment, no default clause), their cases are tied to the grammar by the emits obligations. That the printed run is a legal "
        "run of the automaton follows from C01's step contracts. ",
   design="§S.2 C17", technique="contract-based deductive verification with a ghost output log + emits contracts"),
 "C09": dict(
   text="Deductive proof of the leaf operations the canonical-collection construction is built from: InsertItem keeps the representation invariant of an item "
        "set (map == list, no duplicates) and appends exactly when the item is new; InsertGoTO likewise for transitions; LR0.CheckIsExist returns an index iff a state "
        "with exactly the same item list exists (no duplicate states, no two different item sets identified); InsertItemClosure appends with Index == position; "
        "getItemCloure returns (r,0) for exactly the rules r whose left-hand side is the symbol after the dot (both inclusions); ComputeIClosure returns the LEAST closed "
        "superset of the items it is given (closed: every needed (r,0) is present; justified: every added item is needed by an item of the set; the given items are kept; "
        "representation invariant kept) and leaves it sorted by (rule, dot), which is what makes the position-wise comparison of CheckIsExist a set comparison. "
        "Also under this property: drawing a state (StateGraphNode, -g) lists all its items and leaves the automaton's item lists alone; and the lexer's action scanner ends an action exactly where the "
        "brace depth of the text read so far returns to 0 (every rune counted), so no rule is swallowed into an action; BuildTrans loses no transition of the collection.",
   note=TB + "Assumed: sort.SliceStable yields a permutation ordered by its less function. Local steps of the worklist are proved too: state 0 is the closure of the start item and the only state when the worklist starts (BuildLALR1); in "
        "ComputeGotoItemNoneRec an item with X after the dot contributes exactly its advanced item (same rule, dot+1) to the target on X, a new goto entry is created on exactly that X, "
        "and every pending target is resolved to the index of a state with exactly its item list (an existing one, else itself appended). NOT proved as a whole: the worklist orchestration ComputeGotoItemNoneRec / ComputeAllGoto "
        "(state reachability, completeness of transitions, state 0). The bounded LR(1)-merge stand-in of C03 fails when the LR(0) cores are not canonical, but it is "
        "registered under C03, not here.",
   design="§5 C09", technique="contract-based deductive verification of the leaf functions (govc VC generator + SMT)"),
 "C03": dict(
   text="Deductive proof, on the real relation builders, of the DeRemer-Pennello side conditions: every pair returned by CalcLookbacks satisfies "
        "p --rhs--> q and every pair returned by CaclIncludeRelation satisfies B -> beta A gamma, gamma nullable, p' --beta--> p, stated with the spec "
        "functions spec_step / spec_walk that the helper (*LALR1).walk is proved to compute; seqenceCanEpsilon == all symbols nullable; fetchTransIndex "
        "finds a transition iff one exists. The check found that both relations ignored the path condition (SLR-like lookaheads), now fixed. Both relations are also proved COMPLETE (every pair that satisfies the condition is in the "
        "result; lemma WALKNEG by induction: a failed walk stays failed), the direct-read sets are proved exact (DR(p,A) = terminals shiftable after (p,A), keyed by exactly the "
        "nonterminal transitions, each entry with its own array - Digraph writes into them), and BuildTrans is proved to list exactly the goto edges and complete items of the "
        "automaton; the reads relation of one transition is exact (calcReadsRelation) and the lists handed to the two digraphs are the WHOLE reads / includes relations over the nonterminal transitions "
        "(CalcAllReadRelations: sound and complete; CaclIncludes: complete), the wiring of the digraph calls is pinned. The composition (Digraph/Traverse) and the exactness of the final lookahead sets are covered by a BOUNDED stand-in that compares every lookahead "
        "set with the LALR(1) set obtained by merging canonical LR(1) states, on fixed and pseudo-random grammars.",
   note=TB + "Proved: soundness AND completeness of lookback / includes, walk, fetchTransIndex, seqenceCanEpsilon, fetchReduceTransistor (exact), CalcDR, fetchOneDr, BuildTrans. "
        "Axioms STEP/WALK0/WALKS define spec_step/spec_walk over the transition list (consistent under the determinism clause of wfTrans). NOT proved deductively "
        "(bounded stand-in, <= 3 nonterminals, <= 3 terminals, <= 5 rules, 400 grammars quick / 20000 thorough + 9 fixed): "
        "Digraph/Traverse (only local steps are under contract), CalcLookAheadSet, and the DeRemer-Pennello theorem itself (literature). The conflict-warning part of C03 rests on CheckAndResolveConflict's "
        "contract (C04). wfTrans (shape of the transition list) is a precondition of the relation builders; BuildTrans proves its entry-by-entry part.",
   design="§5 C03, Appendix A.4", technique="contract-based deductive verification of the relation builders + bounded run-time contract evaluation for Digraph"),
 "C11": dict(
   text="Deductive proof on the real code that (a) a character literal is numbered by its first rune in all three parser sites (found: first byte, fixed), "
        "(b) astDeclareVistor.Process keeps idMaxValue above every value in the identifier table through all declaration loops, keeps explicit values, and "
        "hands out automatic codes that are above the old maximum (hence different from explicit / literal codes and from -1) and pairwise different, "
        "(c) both builders emit `const NAME = Value` from the table entry of a terminal and translate cases `code -> symbol id` for terminals only, "
        "(d) the lexer's character-literal token carries a lexeme whose first rune is the character written (sender-side token log), a %token with a number keeps it, a name "
        "without number or introduced by a precedence line gets 0 = automatic, (e) BuildLALR1 copies name, code and tag of every identifier onto its grammar symbol and gives the "
        "end marker the code -1; the internal name of a character literal is the fixed prefix followed by the literal itself (genTempName, proved), so different literals never share a table entry, (f) in every rendered Go parser translate() and TraceTranslate() are nothing but the emitted cases (extraction obligation shape:translate-cases: `var conv = zero; switch c { case <int>: conv = <literal> ... }; return conv`, no default clause), so a code without a case maps to symbol 0 = error.",
   note=TB + "The token cursor parser.next/backup/expect is verified (C13); assumed at the receive site: a character token has a non-empty lexeme. Trusted contracts: SortedIdNames (returns the keys), "
        "utf8.DecodeRuneInString. Interior pointers &IdentifyList[i] are modelled as fresh objects holding a copy (the slice element is never read again). "
        "Not proved: that EVERY terminal gets a translate case (only: each case is right and no nonterminal has one). A-seq: the token received is the token sent.",
   design="§5 C11", technique="contract-based deductive verification (govc VC generator + SMT)"),
 "C13": dict(
   text="Deductive termination proof of generation's front end, on the real code, function by function. Lexer: every scanning loop of every state function and "
        "of acceptRun / acceptOnlyAlphaWord / acceptWord has a proved `decreases` measure (input left, plus an end-of-input flag where the loop reads one rune ahead); "
        "every state function is proved to return a state that either consumed input or has lower rank (comment 0 < root 1 < scanning 2 < directive 3), so (*lexer).run's "
        "loop is proved to terminate with the lexicographic measure (input left, rank) by a case split over the function values. This found that a non-ASCII Unicode digit "
        "made rootState return itself without consuming anything (generation hung on the one-character input U+0663; fixed). Channel step: nextToken returns the k-th token "
        "sent while the channel is open and an EOF token once it is closed (found: it returned a zero Token on which no parser loop stops, `%start` hung; fixed). Parser: "
        "the token cursor next/backup/backup2/expect is verified against a ghost count of fetched tokens (representation invariant of the 3-slot look-back buffer); "
        "parseTokendef, parsePrecList, parseTypeList, parseStartSymbol, parseRule, parseDeclare and Parse's rule loop are proved to consume at least one token per "
        "iteration and to stop on EOF / Section / Error, with measure `tokens left before the first EOF`. Sender side: every token the lexer sends is proved to satisfy what the "
        "parser assumes of a received token (EndAt inside the input, non-empty character lexeme), lexer.error always sends its token, and the unterminated-comment loop is proved "
        "PRODUCTIVE (each iteration consumes input or hands a token to the parser). Beyond the front end, a TERMINATION ACCOUNTING covers everything reachable from "
        "TemplateGenFromString / TsGenFromString (call graph recomputed on every run): `range` loops terminate by construction; every other loop must carry a `decreases` measure "
        "- discharged by SMT in this run: the table construction and splitting loops, the precedence fold (measure: candidates left), walk, the PackTable loops, the builders' "
        "rule loops, the LR(0) worklist (measure 2000 - i, from the built-in state limit) - or be LISTED as a termination assumption; a recursive function needs a listed "
        "assumption too. A reachable loop with neither is a failed obligation.",
   note=TB + "Hypotheses (axioms, not proved): STREAM - the token stream contains an EOF token at a finite position spec_E() and only EOF tokens after it (this is what run()'s "
        "termination plus the closed-channel step deliver, but the link from the lexer's final emitEOF/close to the receive-side stream is assumption A-seq: unbuffered channel, "
        "one sender, one receiver, goroutine verified as sequential code); TOK - every received token has 0 <= EndAt <= len(input) and a character token has a non-empty lexeme "
        "(assumed at the receive site). Trusted: Lex (starts the goroutine), utf8.DecodeRuneInString / unicode.* / strings.HasPrefix as pure functions with their width facts. "
        "KNOWN LIMIT, documented not proved: CommentState's unterminated-comment loop sends an error token per iteration and never exits by itself; it blocks on its send once the "
        "parser has stopped reading (the goroutine leaks; generation terminates). LISTED termination assumptions (not proved, each with its argument in the contract file): the three fixpoint loops CalculateCanTerminate / "
        "CalculateEpsilonClosure / ComputeIClosure (a counting measure - number of unmarked symbols / missing items - is not expressible in this SMT encoding; monotonicity IS proved), "
        "Traverse's recursion and pop loop (Digraph, bounded stand-in only), and the unterminated-comment loop above. Library calls are assumed to terminate. A BOUNDED "
        "stand-in (labelled bounded, not counted as proved) additionally parses every input of up to 3 fragments from an 18-fragment alphabet under a watchdog.",
   design="§S.2 C13", technique="contract-based deductive verification (loop variants, state-machine rank, ghost token cursor, termination accounting over the call graph) + bounded run-time stand-in"),
 "C14": dict(
   text="Every `range` over a map in the 100+ functions reachable from TemplateGenFromString / TsGenFromString (computed from the real call graph on every "
        "run) must be justified in a contract: swap commutation (body(k1);body(k2) and body(k2);body(k1) yield the same state, for every state and all "
        "k1 != k2 - an SMT obligation generated from the real loop body, e.g. GenTable's cell loop), uniqueness of the loop's proved postcondition "
        "(PackTable's output loop), an explicit listed assumption, or an exemption for debug printing; a reachable map range without justification, a "
        "select, a goroutine outside the lexer, time/rand/unsafe, %p, or a WRITE TO A PACKAGE-LEVEL VARIABLE (state carried from one generation to the next in the same process) "
        "is a failed obligation. The check found the five order-dependent sites "
        "(auto-numbering, symbol numbering, state numbering, default action ties, constant block), now fixed.",
   note=TB + "Listed assumptions: the relation/worklist slices built from DRSet/ReadSet are used as sets only (Digraph-spec hypothesis), "
        "CheckAndResolveConflict's per-cell loop touches only its own cell, CalculateCanTerminate's result is used for emptiness only, SortedIdNames "
        "returns the sorted keys (sort.Strings assumed correct), debug Show* functions print to stdout only. The lexer goroutine is deterministic under "
        "assumption A-seq (unbuffered channel, one sender, one receiver). text/template and fmt are assumed deterministic.",
   design="§5 C14", technique="contract-based verification: order-independence obligations (swap commutation / post uniqueness) per map loop + reachability scan"),
 "C01": dict(
   text=DRV + "C01: every loop iteration consults T(top state, lookahead); a reduction by r is taken only when the top |rhs r| stack symbols are rhs(r) (lemma L, "
        "proved by induction as two SMT queries) and pushes (goto(top', lhs r), lhs r); accept only in configuration [0, goto(0,S)] on the end marker; "
        "CheckAndResolveConflict's surviving action is a candidate of its cell; GenTable encodes each cell as error / accept / shift target / -rule of a transition under its "
        "lookahead; BuildTrans makes the transition list the LR(0) automaton entry by entry (both directions); BuildLALR1 makes grammar rule k+1 the k-th rule of the file built "
        "from the symbols of the same names; translate() has cases for terminals only. " + STAGES,
   note=DRVNOTE, design="§S.2 C01, §3.8, Appendix A.6", technique="contract-based deductive verification of the rendered driver (govc VC generator + SMT, lemma by induction)"),
 "C06": dict(
   text=DRV + "C06: every index / nil / type-assertion obligation of the driver functions is discharged under the stack invariant (no crash other than the documented "
        "panic whose text starts with `Grammar error`); the ERROR test precedes the shift (a shift happens only on a cell that is a transition of the automaton); a non-nil "
        "result is returned only in the accepting configuration; both builders emit ERROR_ACTION = nStates+100 and ACCEPT_ACTION = nStates+200 (emits obligations; this "
        "found the TypeScript constant 0, now fixed); both translate() builders emit cases for terminals only, so an unknown integer maps to column 0 = error. " + STAGES,
   note=DRVNOTE + " The correct-prefix property and termination of LALR parsing (first bad token, finitely many steps) are literature theorems, not decided by these contracts.",
   design="§5 C06", technique="contract-based deductive verification (safety obligations + emits contracts)"),
 "C07": dict(
   text=DRV + "C07: in ReduceFunc the window Dollar[0..n] is exactly the top n+1 stack entries and $$ starts as a fresh zero value; in Parser those entries carry the "
        "symbols rhs(r,0..n-1) (lemma L); window size == pop count == |rhs| (emits); the value returned on accept is the ValType of the entry for the start symbol. Generator side: actionCodeReplace(Ts) "
        "replaces `$$` by the field of the left-hand side's tag and every `$<digits>` - the WHOLE digit string, pattern \\$[0-9]+ pinned - by slot <digits> with the tag of right-hand-side "
        "symbol <digits> (the closure passed to ReplaceAllStringFunc is verified for an arbitrary match); tags flow unchanged from %token/%left lines to identifiers to grammar symbols; "
        "grammar rule i is paired with action text i-1 (no rule dropped or reordered). " + STAGES,
   note=DRVNOTE + " regexp matching and ReplaceAllStringFunc calling the function once per match are library behaviour, assumed. %type tags (parseTypeList -> astDeclareVistor) are "
        "not under a tag contract. A stale token value at shift is not covered.",
   design="§5 C07", technique="contract-based deductive verification of the rendered driver"),
 "C08": dict(
   text=DRV + "C08: the goCode and goObject renderings, packed and unpacked, are verified against the same contract text (renaming StateSymStack/StackPointer to "
        "c.StackSym/c.Stackpos): each refines the same step specification over T; both builders emit the same constants and per-rule numbers (shared emits clauses), the TypeScript builder the same translate cases, reduce cases and $n substitution; the TypeScript "
        "driver (transliterated) satisfies the same step clauses: the action consulted is the table cell of (top state, lookahead), a shift happens only on a transition and pushes (target, lookahead, token value), "
        "a reduction only with rhs(r) on top, then (goto(top, lhs), lhs, $$) is pushed, accept only in [0, goto(0,S)] returning that entry's value. "
        "A fresh stack array per ParserInit in global mode (what object mode gets from a fresh context). " + STAGES,
   note=DRVNOTE, design="§S.2 C08", technique="contract-based deductive verification: two implementations against one contract"),
 "C15": dict(
   text=DRV + "C15: ParserInit establishes StackPointer==1 with bottom entry (0,$,zero); PushStateSym never writes below the old stack pointer; every stack read of the driver is "
        "below the stack pointer (bounds obligations under INV); $$ of every reduction is a fresh zero value (no state carried between reductions or parses); object-mode "
        "methods modify only their own context (frame obligations). Global mode: PushContex appends exactly the current (stack, stack pointer) and PopContex restores exactly the last saved pair and removes only it "
        "(nested parses inside actions); MakeParserContext returns a NEW object in the initial configuration and touches no other context. TypeScript: initialize() leaves a NEW one-entry array (0, $, no value) and StackPointer == 1.",
   note=DRVNOTE + " Data-race freedom of different contexts is argued from the frames (disjoint write sets, read-only tables), not model-checked. Reuse of the stack's backing "
        "array across ParserInit (aliasing of a previously returned *ValType) is outside the value model of slices.",
   design="§5 C15", technique="contract-based deductive verification of the rendered driver (postconditions + frames)"),
 "C19": dict(
   text="Typestate/effect contract on the real TemplateGenFromString, TsGenFromString and WriteFile: after the call of os.Create only calls from an "
        "explicit input-infallible list may follow (fmt.Errorf, WriteFile / WriteString / Close); WriteFile itself is io_only; every function of the "
        "repository is treated as fallible on the input; nothing reachable from the two generator entry points or from the command-line front end calls recover(), so a failure in front of os.Create really ends the run (effect no_recover). The obligations are generated from the function bodies in /repo on every run and decided by "
        "govc's effect analysis (call order over the AST, no bound). Completeness of the output: both template constants end with {{.CodeLast}} and "
        "the TypeScript builder's last WriteString writes b.CodeLast. Every action of the two template constants reads a FIELD of TemplateBuilder - no method of that name exists, "
        "no call or pipeline - so nothing input-dependent is evaluated while the file is open. The command-line front end (genCommonFunc, cmdGenerate) is under an io_only "
        "contract as well: it opens and reads the input file and calls the generator, and touches the output path in no other way; the TypeScript epilogue written last is the text "
        "after the second %% byte for byte (Parse, RootVistor.Process, TsBuilder.buildUionAndCode). A failed obligation is replayed by running the real generator on rejected "
        "grammars over a pre-existing file.",
   note="Trusted: govc's effect analysis (syntactic: source order of calls, enclosing loop of os.Create, defers), go/types callee resolution. Assumed "
        "input-infallible: text/template New/Parse/Execute on the constant templates with string/bool fields, (*os.File).WriteString/Close, fmt.Errorf. "
        "I/O errors of the operating system are outside the property.",
   design="§5 C19", technique="contract-based verification: effect/typestate contract checked over the real function bodies"),
 "C05": dict(
   text="Deductive proof that table compression is lossless: PackTable's postcondition (every non-blank entry retrievable through offset+check, "
        "no blank entry claimed by its row) is proved for every rectangular matrix with quantified loop invariants over all 13 loops, "
        "UnPackTable equals the lookup spec, SplitActionAndGotoTable is the column split/transposition into NEW arrays (never views of the dense table, which the "
        "unpacked and TypeScript back ends still emit), the generated Action() of the packed renderings returns the dense entry, and TrySplitTable's postcondition "
        "states, for every (state, symbol), lookup(packed arrays, ActionDef, GoToDef) == dense table entry - the statement of C05 itself; after TrySplitTable ComputeLALR only prints an error text, so the arrays are final. "
        "All index expressions are proved in range.",
   note=TB + "Assumed contract: sort.SliceStable yields a permutation. TrySplitTable requires a table without zero entries and the symbol layout "
        "len(row)==len(VtSet)+len(VnSet): GenTable proves len(row)==len(Symbols) and no zero cell; Grammar.ResolveSymbols is proved to make VtSet exactly the set of terminals of the symbol list (every declared token, used in a rule or not); the step from the two sets to the cardinalities is by reading (symbols are distinct pointers), not by proof. The generated (*StateSym).Action has an extra "
        "shortcut (offset+a<0 => ERROR) that is covered with the driver contracts, not here. findMaxOccurence's result is arbitrary for C05 (any default is lossless).",
   design="§5 C05, Appendix A.1/A.2", technique="contract-based deductive verification (govc VC generator + SMT), quantified loop invariants"),
 "C04": dict(
   text="Deductive proof, for every pair of candidate actions, that the real ResolveConflict / UseDefaultResolveConflict implement the "
        "statement's rules (higher precedence wins; equal: %left reduces, %right shifts, %nonassoc is an error; no precedence: shift wins, "
        "earlier rule wins), with frame (no existing object modified); and for CheckAndResolveConflict that every candidate action carries exactly the "
        "precedence of its rule (%prec / last precedence symbol) or token, that each fold step over a cell applies precedence first and the yacc "
        "defaults otherwise, and that the surviving action is a candidate of that cell or an ERROR action. Contracts are transcribed from the "
        "property statement; obligations are generated from /repo's source on every run.",
   note=TB + "Under contract: (*LALR1).ResolveConflict, UseDefaultResolveConflict, CheckAndResolveConflict, GenTable's encoding of the surviving action (C01/C02), "
        "and the attachment of precedence in Parser/Vistor.go: astDeclareVistor.Process gives the k-th %left/%right/%nonassoc line level (base)+k with that line's "
        "associativity for each of its symbols (later lines bind tighter); RuleVistor.Process gives every rule the entry of its %prec symbol, else of the LAST right-hand-side "
        "symbol that has one, else none; parsePrecList gives every entry of a line the associativity of its keyword; BuildLALR1 copies level and associativity (%left -> LEFT, "
        "%right -> RIGHT, %nonassoc -> NONE) onto terminal symbols, the precedence symbol onto rules, and keeps file order of the rules (first rule wins reduce/reduce). The packing "
        "contracts (C05) are discharged under this property too: a resolved cell, in particular the error cell of %nonassoc, survives compression. Reduce/reduce between two rules "
        "that both carry precedence is unspecified by C04 and left unconstrained.",
   design="§5 C04", technique="contract-based deductive verification (govc VC generator + SMT)"),
}

reasons = {
 "C10": "statement relates the grammar file as a byte string to the abstract grammar for all layouts; needs a string-level grammar of the .y format and induction over text, which uninterpreted strings / these SMT solvers cannot decide (DESIGN §7)",
 "C16": "acceptance of unbounded generated text by an external compiler (go build / TypeScript) is not expressible as a first-order contract in reach (DESIGN §7)",
}

checks = []
for pid in props:
    if pid in claimed:
        c = claimed[pid]
        checks.append({
          "property_id": pid,
          "quick_cmd": f"./check {pid} quick",
          "thorough_cmd": f"./check {pid} thorough",
          "evidence_file": f"/verif/evidence/{pid}.json",
          "replay_cmd_template": "cat {path}",
          "engine": "govc",
          "level_claimed": {"category": "proof", "text": c["text"], "design_ref": c["design"]},
          "level_note": c["note"],
          "technique": c["technique"],
        })
na = [{"property_id": p, "reason": reasons.get(p, "contracts not reached yet (build in progress, DESIGN §8 degradation rule: no other technique is substituted)")}
      for p in props if p not in claimed]
hooks = subprocess.run(["git", "-C", "/repo", "log", "--format=%h %s"], capture_output=True, text=True).stdout.splitlines()
hook_commits = [l.split()[0] for l in hooks if "verif hook" in l]
m = {
 "version": 1,
 "setup_cmd": "sh ./setup.sh",
 "hooks": {"guard": "verif",
           "enable": "contract files /repo/<Pkg>/contracts_verif.go start with //go:build verif; govc loads /repo with -tags=verif; replay tests run with go test -tags verif",
           "baseline_off_cmd": "cd /repo && go test -vet=off -count=1 ./...",
           "source_commits": hook_commits, "add_only": True},
 "engines": [{"name": "govc", "path": "/verif/govc", "serves_properties": sorted(claimed),
              "kind_free_text": "verification-condition generator for a Go subset (go/ast + go/types), contracts as //@ comments in /repo/<Pkg>/contracts_verif.go, obligations discharged by z3, z3-new and cvc5 raced"}],
 "checks": checks,
 "notes": "See DESIGN.md. known_findings.txt lists fixed/known findings; selftest/run.sh runs the must-fail corpus.",
 "not_applicable": na,
}
json.dump(m, open('/verif/MANIFEST.json', 'w'), indent=1)
try:
    import jsonschema
    jsonschema.validate(m, json.load(open('/root/.vp/MANIFEST.schema.json')))
    print("MANIFEST valid;", len(checks), "checks")
except ImportError:
    print("written (jsonschema not importable here; run with python3-vt to validate)")
