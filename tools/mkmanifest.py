#!/usr/bin/env python3
"""Regenerates /verif/MANIFEST.json from the table below; validates against the schema when jsonschema is available."""
import json, subprocess, sys
props = [json.loads(l)['id'] for l in open('/verif/properties.jsonl')]

TB = ("Trusted: govc (own VC generator over go/ast+go/types; value model for slices/maps under a no-aliasing discipline), "
      "z3 4.8.12 / z3 5.1.0 / cvc5 1.0.3, go/types; integers mathematical; strings uninterpreted. ")

claimed = {
 "C05": dict(
   text="Deductive proof that table compression is lossless: PackTable's postcondition (every non-blank entry retrievable through offset+check, "
        "no blank entry claimed by its row) is proved for every rectangular matrix with quantified loop invariants over all 13 loops, "
        "UnPackTable equals the lookup spec, SplitActionAndGotoTable is the column split/transposition, and TrySplitTable's postcondition "
        "states, for every (state, symbol), lookup(packed arrays, ActionDef, GoToDef) == dense table entry - the statement of C05 itself. "
        "All index expressions are proved in range.",
   note=TB + "Assumed contract: sort.SliceStable yields a permutation. TrySplitTable requires a table without zero entries and the symbol layout "
        "len(row)==len(VtSet)+len(VnSet) (established by GenTable/BuildLALR1, not yet proved). The generated (*StateSym).Action has an extra "
        "shortcut (offset+a<0 => ERROR) that is covered with the driver contracts, not here. findMaxOccurence's result is arbitrary for C05 (any default is lossless).",
   design="§5 C05, Appendix A.1/A.2", technique="contract-based deductive verification (govc VC generator + SMT), quantified loop invariants"),
 "C04": dict(
   text="Deductive proof, for every pair of candidate actions, that the real ResolveConflict / UseDefaultResolveConflict implement the "
        "statement's rules (higher precedence wins; equal: %left reduces, %right shifts, %nonassoc is an error; no precedence: shift wins, "
        "earlier rule wins), with frame (no existing object modified). Contracts are transcribed from the property statement; obligations are "
        "generated from /repo's source on every run.",
   note=TB + "Under contract so far: (*LALR1).ResolveConflict, (*LALR1).UseDefaultResolveConflict. The fold over a cell's candidate list "
        "(CheckAndResolveConflict), GenTable's encoding and the attachment of precedence in Parser/Vistor.go are not yet under contract.",
   design="§5 C04", technique="contract-based deductive verification (govc VC generator + SMT)"),
}

reasons = {
 "C10": "statement relates the grammar file as a byte string to the abstract grammar for all layouts; needs a string-level grammar of the .y format and induction over text, which uninterpreted strings / these SMT solvers cannot decide (DESIGN §7)",
 "C16": "acceptance of unbounded generated text by an external compiler (go build / TypeScript) is not expressible as a first-order contract in reach (DESIGN §7)",
}

checks = []
for pid in props:
    if pid in claimed:
        c = claimed[pid]
        checks.append({
          "property_id": pid,
          "quick_cmd": f"./check {pid} quick",
          "thorough_cmd": f"./check {pid} thorough",
          "evidence_file": f"/verif/evidence/{pid}.json",
          "replay_cmd_template": "cat {path}",
          "engine": "govc",
          "level_claimed": {"category": "proof", "text": c["text"], "design_ref": c["design"]},
          "level_note": c["note"],
          "technique": c["technique"],
        })
na = [{"property_id": p, "reason": reasons.get(p, "contracts not reached yet (build in progress, DESIGN §8 degradation rule: no other technique is substituted)")}
      for p in props if p not in claimed]
hooks = subprocess.run(["git", "-C", "/repo", "log", "--format=%h %s"], capture_output=True, text=True).stdout.splitlines()
hook_commits = [l.split()[0] for l in hooks if "verif hook" in l]
m = {
 "version": 1,
 "setup_cmd": "sh ./setup.sh",
 "hooks": {"guard": "verif",
           "enable": "contract files /repo/<Pkg>/contracts_verif.go start with //go:build verif; govc loads /repo with -tags=verif; replay tests run with go test -tags verif",
           "baseline_off_cmd": "cd /repo && go test -vet=off -count=1 ./...",
           "source_commits": hook_commits, "add_only": True},
 "engines": [{"name": "govc", "path": "/verif/govc", "serves_properties": sorted(claimed),
              "kind_free_text": "verification-condition generator for a Go subset (go/ast + go/types), contracts as //@ comments in /repo/<Pkg>/contracts_verif.go, obligations discharged by z3, z3-new and cvc5 raced"}],
 "checks": checks,
 "notes": "See DESIGN.md. known_findings.txt lists fixed/known findings; selftest/run.sh runs the must-fail corpus.",
 "not_applicable": na,
}
json.dump(m, open('/verif/MANIFEST.json', 'w'), indent=1)
try:
    import jsonschema
    jsonschema.validate(m, json.load(open('/root/.vp/MANIFEST.schema.json')))
    print("MANIFEST valid;", len(checks), "checks")
except ImportError:
    print("written (jsonschema not importable here; run with python3-vt to validate)")
