#!/bin/sh
# usage: tools/mkmutant2.sh <name> <old> <new> <file1> [file2...]   (same replacement in several files, e.g. template + embedded copy)
name="$1"; old="$2"; new="$3"; shift 3
wt=$(mktemp -d /tmp/govc-mk-XXXXXX); rmdir "$wt"
git -C /repo worktree add -q --detach "$wt" HEAD || exit 2
for f in "$@"; do
OLD="$old" NEW="$new" python3 - "$wt/$f" <<'P'
import os,sys
p=sys.argv[1]; s=open(p).read(); old=os.environ['OLD']; new=os.environ['NEW']
assert s.count(old)>=1, "pattern not found in "+p+": "+old
s=s.replace(old,new); open(p,'w').write(s)
P
done
(cd "$wt" && GOFLAGS=-mod=mod GOPROXY=off GOSUMDB=off GOTOOLCHAIN=local go build ./... && GOFLAGS=-mod=mod GOPROXY=off GOSUMDB=off GOTOOLCHAIN=local go test -vet=off -count=1 ./... >/dev/null 2>&1 && echo "mutant $name: builds, tests pass" || echo "mutant $name: WARNING build or tests fail")
git -C "$wt" diff > "/verif/selftest/mutants/$name.patch"
git -C /repo worktree remove --force "$wt"
