#!/bin/sh
# usage: tools/confirm_seed.sh <seed-name> <agent-worktree>
# Confirms a seeded change on a fresh worktree of /repo HEAD: patch applies, builds, existing tests pass,
# demo passes without the patch and fails with it. On success stores it under /verif/seeded/<seed-name>/.
export GOFLAGS=-mod=mod GOPROXY=off GOSUMDB=off GOTOOLCHAIN=local
name="$1"; src="$2"
[ -f "$src/_seed/patch.diff" ] || { echo "no patch in $src/_seed"; exit 2; }
wt=$(mktemp -d /tmp/govc-confirm-XXXXXX); rmdir "$wt"
git -C /repo worktree add -q --detach "$wt" HEAD || exit 2
cleanup() { git -C /repo worktree remove --force "$wt"; }
# untracked files in the agent worktree outside _seed = demonstration files in place
demos=$(git -C "$src" status --porcelain | grep '^??' | awk '{print $2}' | grep -v '^_seed')
demo_cmd=$(python3 -c "import json,re;c=json.load(open('$src/_seed/meta.json'))['demo_cmd'];c=re.sub(r'cp \S+ \S+ && ','',c);print(c)" | sed "s#$src#$wt#g")
echo "demo files: $demos"; echo "demo cmd: $demo_cmd"
for d in $demos; do mkdir -p "$wt/$(dirname $d)"; cp -r "$src/$d" "$wt/$d"; done
echo "--- demo WITHOUT patch (expect pass)"
(cd "$wt" && bash -c "$demo_cmd") > /tmp/confirm_$name.without 2>&1; rc0=$?
tail -3 /tmp/confirm_$name.without
if ! git -C "$wt" apply "$src/_seed/patch.diff"; then echo "PATCH DOES NOT APPLY to /repo HEAD"; cleanup; exit 1; fi
echo "--- build + existing tests WITH patch (demo moved aside)"
for d in $demos; do mv "$wt/$d" "$wt/$d.aside"; done
(cd "$wt" && go build ./... && go test -vet=off -count=1 ./... ) > /tmp/confirm_$name.tests 2>&1; rct=$?
grep -v "no test files" /tmp/confirm_$name.tests | tail -9
for d in $demos; do mv "$wt/$d.aside" "$wt/$d"; done
echo "--- demo WITH patch (expect fail)"
(cd "$wt" && bash -c "$demo_cmd") > /tmp/confirm_$name.with 2>&1; rc1=$?
tail -5 /tmp/confirm_$name.with
echo "rc without=$rc0 tests=$rct with=$rc1"
if [ $rc0 -eq 0 ] && [ $rct -eq 0 ] && [ $rc1 -ne 0 ]; then
  mkdir -p /verif/seeded/$name
  cp "$src/_seed/patch.diff" /verif/seeded/$name/patch.diff
  for d in $demos; do cp "$src/$d" /verif/seeded/$name/; done
  python3 - "$src/_seed/meta.json" /verif/seeded/$name/meta.json "$demos" "$demo_cmd" "$wt" <<'P'
import json,sys
m=json.load(open(sys.argv[1]))
m['demo_files_dest']=sys.argv[3].split()
m['demo_cmd']=sys.argv[4].replace(sys.argv[5],'<worktree>')
m['confirmed']="tools/confirm_seed.sh on a fresh worktree of /repo HEAD: patch applies; go build ./... ok; go test -vet=off -count=1 ./... passes with the patch (demo aside); demo passes without the patch and fails with it"
json.dump(m,open(sys.argv[2],'w'),indent=1)
P
  echo "CONFIRMED -> /verif/seeded/$name"
else
  echo "NOT CONFIRMED"
fi
cleanup
