#!/bin/sh
# usage: tools/mkmutant.sh <name> <file> <python-expr old> <new>   (creates selftest/mutants/<name>.patch from /repo HEAD)
name="$1"; file="$2"; old="$3"; new="$4"
wt=$(mktemp -d /tmp/govc-mk-XXXXXX); rmdir "$wt"
git -C /repo worktree add -q --detach "$wt" HEAD || exit 2
OLD="$old" NEW="$new" python3 - "$wt/$file" <<'P'
import os,sys
p=sys.argv[1]; s=open(p).read(); old=os.environ['OLD']; new=os.environ['NEW']
assert s.count(old)>=1, "pattern not found: "+old
s=s.replace(old,new,1); open(p,'w').write(s)
P
rc=$?
if [ $rc -eq 0 ]; then
  (cd "$wt" && GOFLAGS=-mod=mod GOPROXY=off GOSUMDB=off GOTOOLCHAIN=local go build ./... && GOFLAGS=-mod=mod GOPROXY=off GOSUMDB=off GOTOOLCHAIN=local go test -vet=off -count=1 ./... >/dev/null 2>&1 && echo "mutant $name: builds, tests pass" || echo "mutant $name: WARNING build or tests fail")
  git -C "$wt" diff > "/verif/selftest/mutants/$name.patch"
fi
git -C /repo worktree remove --force "$wt"
