#!/bin/sh
# runs every quick check on /repo's working tree; prints one line per property; exit 1 if any check does not exit 0
cd /verif; bad=0
for p in C01 C02 C03 C04 C05 C06 C07 C08 C09 C11 C12 C13 C14 C15 C17 C18 C19; do
  ./check $p ${1:-quick} > /tmp/runall_$p.log 2>&1; rc=$?
  echo "$p exit=$rc viol=$(grep -c '^VIOLATION' /tmp/runall_$p.log) $(tail -1 /tmp/runall_$p.log | cut -c1-150)"
  [ $rc -eq 0 ] || bad=1
done
exit $bad
