#!/bin/sh
# Accept the current tree: record every obligation that discharges (3 consecutive runs) in baseline/obligations.json
export GOFLAGS=-mod=mod GOPROXY=off GOSUMDB=off GOTOOLCHAIN=local
cd /verif
for p in "$@"; do
  for k in 1 2; do bin/govc -prop $p >/dev/null || { echo "accept: $p does not pass (run $k)"; exit 1; }; done
  bin/govc -prop $p -write-baseline | tail -1
done
