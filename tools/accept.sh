#!/bin/sh
# Accept the current tree: record every obligation that discharges (after two passing runs) in baseline/<prop>.json
cd /verif
for p in "$@"; do
  for k in 1 2; do ./check $p quick >/dev/null || { echo "accept: $p does not pass (run $k)"; exit 1; }; done
  VERIF_WRITE_BASELINE=1 VERIF_EVID=/tmp/govc-accept-evid ./check $p quick | tail -1
done
rm -rf /tmp/govc-accept-evid
