package main

import (
	"fmt"
	"go/token"
	"go/types"
	"sort"
	"strings"
)

type State struct {
	vars  map[types.Object]Val
	heap  map[*types.Var]string // struct field -> array term (Array Int sort)
	alloc string
	pc    []string
	ghost map[string]Val
}

func (s *State) clone() *State {
	n := &State{vars: make(map[types.Object]Val, len(s.vars)), heap: make(map[*types.Var]string, len(s.heap)), alloc: s.alloc, ghost: make(map[string]Val, len(s.ghost))}
	for k, v := range s.vars {
		n.vars[k] = v
	}
	for k, v := range s.heap {
		n.heap[k] = v
	}
	for k, v := range s.ghost {
		n.ghost[k] = v
	}
	n.pc = append([]string(nil), s.pc...)
	return n
}

func (s *State) assume(f string) {
	if f == "true" || f == "" {
		return
	}
	s.pc = append(s.pc, f)
}

type Obligation struct {
	Func    string
	Name    string   // full name: pkg.Recv.Func/kind#n
	Kind    string
	Props   []string // nil = all props of the function
	Decls   []string
	PC      []string
	Goal    string
	ExpectSat bool   // vacuity checks: must NOT be unsat
	PrePC   []string // for loop-head vacuity: path condition before the loop
	Src     string   // source text of the clause / site
	Pos     string
	Observe []obsTerm // terms to read from a model
	ctx     *Ctx
	// results
	Status  string // proved | failed | unknown | vacuous
	Solver  string
	Time    float64
	Model   map[string]string
	Size    int
	Answers map[string]string
	Output  string
}

type obsTerm struct {
	Label string
	Term  string
}

// pretty position
func posStr(fset *token.FileSet, p token.Pos) string {
	if !p.IsValid() {
		return ""
	}
	pp := fset.Position(p)
	return fmt.Sprintf("%s:%d", pp.Filename, pp.Line)
}

// merge two states derived from a common ancestor
func (x *Exec) merge(a, b *State) *State {
	if a == nil {
		return b
	}
	if b == nil {
		return a
	}
	p := 0
	for p < len(a.pc) && p < len(b.pc) && a.pc[p] == b.pc[p] {
		p++
	}
	sel := x.ctx.Fresh("path", "Bool")
	n := &State{vars: map[types.Object]Val{}, heap: map[*types.Var]string{}, ghost: map[string]Val{}}
	n.pc = append([]string(nil), a.pc[:p]...)
	ra := and(a.pc[p:]...)
	rb := and(b.pc[p:]...)
	if ra != "true" {
		n.pc = append(n.pc, implies(sel, ra))
	}
	if rb != "true" {
		n.pc = append(n.pc, implies(not(sel), rb))
	}
	mk := func(name string, sortTy types.Type, sa, sb string) string {
		if sa == sb {
			return sa
		}
		t := ite(sel, sa, sb)
		if len(t) > 160 {
			var srt string
			if sortTy != nil {
				srt = x.ctx.Sort(sortTy)
			} else {
				srt = name // explicit sort passed in name
			}
			c := x.ctx.Fresh("m", srt)
			n.pc = append(n.pc, eq(c, t))
			return c
		}
		return t
	}
	// deterministic order
	var objs []types.Object
	for o := range a.vars {
		if _, ok := b.vars[o]; ok {
			objs = append(objs, o)
		}
	}
	sort.Slice(objs, func(i, j int) bool {
		if objs[i].Pos() != objs[j].Pos() {
			return objs[i].Pos() < objs[j].Pos()
		}
		return objs[i].Name() < objs[j].Name()
	})
	for _, o := range objs {
		va, vb := a.vars[o], b.vars[o]
		n.vars[o] = Val{mk("", va.Ty, va.S, vb.S), va.Ty}
	}
	var flds []*types.Var
	seen := map[*types.Var]bool{}
	for f := range a.heap {
		flds = append(flds, f)
		seen[f] = true
	}
	for f := range b.heap {
		if !seen[f] {
			flds = append(flds, f)
		}
	}
	sort.Slice(flds, func(i, j int) bool { return x.heapName(flds[i]) < x.heapName(flds[j]) })
	for _, f := range flds {
		ha, hb := x.heapOf(a, f), x.heapOf(b, f)
		n.heap[f] = mk(fmt.Sprintf("(Array Int %s)", x.ctx.Sort(f.Type())), nil, ha, hb)
	}
	n.alloc = mk("Int", nil, a.alloc, b.alloc)
	gk := map[string]bool{}
	for k := range a.ghost {
		if _, ok := b.ghost[k]; ok {
			gk[k] = true
		}
	}
	for _, k := range sortedKeys(gk) {
		va, vb := a.ghost[k], b.ghost[k]
		n.ghost[k] = Val{mk("", va.Ty, va.S, vb.S), va.Ty}
	}
	return n
}

func (x *Exec) mergeAll(sts []*State) *State {
	var r *State
	for _, s := range sts {
		r = x.merge(r, s)
	}
	return r
}

// heap access
func (x *Exec) heapName(f *types.Var) string {
	owner := x.v.fieldOwner[f]
	if owner == "" {
		owner = "anon"
	}
	return "H_" + sanitize(owner) + "_" + sanitize(f.Name())
}

func (x *Exec) heapOf(s *State, f *types.Var) string {
	if h, ok := s.heap[f]; ok {
		return h
	}
	// initial heap for this field (shared by entry state)
	name := x.ctx.Const(x.heapName(f)+"$0", fmt.Sprintf("(Array Int %s)", x.ctx.Sort(f.Type())))
	return name
}

func trunc(s string, n int) string {
	s = strings.Join(strings.Fields(s), " ")
	if len(s) > n {
		return s[:n] + "…"
	}
	return s
}
