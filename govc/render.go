package main

import (
	"bytes"
	"fmt"
	"go/ast"
	"go/format"
	"go/parser"
	"go/scanner"
	"go/token"
	"os"
	"path/filepath"
	"regexp"
	"strings"

	"golang.org/x/tools/go/packages"
)

// Rendered parsers.
//
// The generated parsers are verified as rendered text: an injected test (render/render_test.go, via
// go test -overlay) runs the real generator on the example grammars. Each rendered file is then transformed
// mechanically ("extraction") before it is loaded for verification. Exactly this is changed:
//   1. const ERROR_ACTION / ACCEPT_ACTION / NTERMINALS become package variables without value
//      (symbolic; constrained by the contracts, whose values are proved on the generator side by `emits`).
//   2. in ReduceFunc the per-rule cases of `switch reduceIndex` are replaced by ONE schematic case obtained from
//      the concrete cases by replacing the three integer literals (lhs id, window size, pop count) by
//      spec_lhs(reduceIndex) / spec_rhsLen(reduceIndex) and the user action by spec_userAction(...);
//      every concrete case must have exactly that shape, otherwise a `shape` obligation fails.
//   3. the prelude of specification functions from the contract file is appended.
// Everything else (Action, PushStateSym, PopStateSym, ParserInit, Parser, fetchLookAhead, TraceShift, ... and the
// user's code) is the rendered text, untouched. Table initialisers are kept but never read: package variables are
// symbolic at function entry.

type renderedVariant struct {
	Name   string
	Tags   map[string]bool
	Dir    string
	Shape  []string // shape violations found while abstracting ReduceFunc
	ShapeT []string // shape violations of the rendered code-to-symbol switches (translate, TraceTranslate)
	NTrans int      // number of translate cases seen
	Static map[string]string
}

var symbolicConsts = map[string]bool{"ERROR_ACTION": true, "ACCEPT_ACTION": true, "NTERMINALS": true}

func extractRendered(src []byte, name string, prelude string, outDir string) (*renderedVariant, error) {
	rv := &renderedVariant{Name: name, Tags: map[string]bool{}, Static: map[string]string{}}
	fset0 := token.NewFileSet()
	f0, err := parser.ParseFile(fset0, name+".go", src, parser.ParseComments)
	if err != nil {
		return nil, fmt.Errorf("rendered file %s does not parse: %v", name, err)
	}
	{
		stack, sp, pop := "StateSymStack", "StackPointer", "PopStateSym"
		if strings.Contains(name, "objtrue") {
			stack, sp, pop = "c.StackSym", "c.Stackpos", "c.PopStateSym"
		}
		for _, d := range f0.Decls {
			if fd, ok := d.(*ast.FuncDecl); ok && fd.Name.Name == "ReduceFunc" && fd.Body != nil {
				if lo, hi, repl, ok := rv.abstractReduce(fset0, fd, stack, sp, pop); ok {
					src = append(append(append([]byte(nil), src[:lo]...), []byte(repl)...), src[hi:]...)
				}
			}
		}
	}
	fset := token.NewFileSet()
	f, err := parser.ParseFile(fset, name+".go", src, parser.ParseComments)
	if err != nil {
		return nil, fmt.Errorf("rendered file %s does not parse after abstraction: %v", name, err)
	}
	seenT := map[string]bool{}
	for _, d := range f.Decls {
		if fd, ok := d.(*ast.FuncDecl); ok && fd.Recv == nil && fd.Body != nil && (fd.Name.Name == "translate" || fd.Name.Name == "TraceTranslate") {
			seenT[fd.Name.Name] = true
			rv.lookupSwitchShape(fset, fd)
		}
	}
	for _, d := range f.Decls {
		if fd, ok := d.(*ast.FuncDecl); ok && fd.Recv == nil && fd.Body != nil && fd.Name.Name == "TraceReduce" {
			seenT["TraceReduce"] = true
			rv.traceReduceShape(fset, fd)
		}
	}
	for _, n := range []string{"translate", "TraceTranslate", "TraceReduce"} {
		if !seenT[n] {
			rv.ShapeT = append(rv.ShapeT, "no function "+n+" in the rendered file")
		}
	}
	rv.Tags["lr"] = true
	if strings.Contains(name, "objtrue") {
		rv.Tags["goObject"] = true
		rv.Tags["goCode"] = true // the goCode contracts apply through the renamings
	} else {
		rv.Tags["goCode"] = true
		rv.Tags["global"] = true
	}
	var decls []ast.Decl
	for _, d := range f.Decls {
		switch dd := d.(type) {
		case *ast.GenDecl:
			if dd.Tok == token.CONST {
				var keep []ast.Spec
				for _, sp := range dd.Specs {
					vs := sp.(*ast.ValueSpec)
					if len(vs.Names) == 1 && symbolicConsts[vs.Names[0].Name] {
						decls = append(decls, &ast.GenDecl{Tok: token.VAR, Specs: []ast.Spec{&ast.ValueSpec{Names: vs.Names, Type: ast.NewIdent("int")}}})
						continue
					}
					keep = append(keep, sp)
				}
				if len(keep) == 0 {
					continue
				}
				dd.Specs = keep
			}
			if dd.Tok == token.VAR {
				for _, sp := range dd.Specs {
					vs := sp.(*ast.ValueSpec)
					for _, n := range vs.Names {
						if n.Name == "StatePackAction" {
							rv.Tags["packed"] = true
						}
						if n.Name == "StateActionArray" {
							rv.Tags["unpacked"] = true
						}
					}
				}
			}
			decls = append(decls, dd)
		case *ast.FuncDecl:
			decls = append(decls, dd)
		}
	}
	f.Decls = decls
	f.Comments = nil
	var buf bytes.Buffer
	if err := format.Node(&buf, fset, f); err != nil {
		return nil, err
	}
	// static function texts (for the cross-grammar identity check)
	for _, d := range f.Decls {
		if fd, ok := d.(*ast.FuncDecl); ok {
			switch fd.Name.Name {
			case "Action", "TraceShift", "PushStateSym", "PopStateSym", "ParserInit", "MakeParserContext", "Parser", "fetchLookAhead", "ReduceFunc", "PushContex", "PopContex":
				var b bytes.Buffer
				format.Node(&b, fset, fd)
				rv.Static[funcKey(fd)] = tokenString(b.Bytes())
			}
		}
	}
	dir := filepath.Join(outDir, name)
	os.MkdirAll(dir, 0o755)
	rv.Dir = dir
	os.WriteFile(filepath.Join(dir, "go.mod"), []byte("module rendered/"+name+"\n\ngo 1.18\n"), 0o644)
	os.WriteFile(filepath.Join(dir, "main.go"), buf.Bytes(), 0o644)
	pre := "package main\n\n" + prelude + "\n"
	if rv.Tags["goObject"] {
		pre = strings.ReplaceAll(pre, "/*RECV*/", "")
	}
	os.WriteFile(filepath.Join(dir, "zz_spec_prelude.go"), []byte(pre), 0o644)
	return rv, nil
}

// lookupSwitchShape checks that a rendered lookup function (translate: token code -> symbol id, TraceTranslate: symbol id ->
// name) is nothing but the table its cases spell out:
//
//	var conv T = <zero>; switch c { case <int>: conv = <literal> ... }; return conv
//
// with one integer literal per case, no default clause, no fallthrough and nothing else - so a value that is not a case
// label yields the zero value (symbol 0 / "") and a label yields exactly the literal emitted for it (the emitted cases are
// tied to the grammar by the emits clauses of buildTranslate).
func (rv *renderedVariant) lookupSwitchShape(fset *token.FileSet, fd *ast.FuncDecl) {
	name := fd.Name.Name
	str := func(n ast.Node) string {
		var b bytes.Buffer
		format.Node(&b, fset, n)
		return b.String()
	}
	bad := func(msg string) { rv.ShapeT = append(rv.ShapeT, name+": "+msg) }
	zero, kind := "0", token.INT
	if name == "TraceTranslate" {
		zero, kind = `""`, token.STRING
	}
	if fd.Type.Params == nil || len(fd.Type.Params.List) != 1 || len(fd.Type.Params.List[0].Names) != 1 || str(fd.Type.Params.List[0].Type) != "int" {
		bad("parameter list is not (c int)")
		return
	}
	par := fd.Type.Params.List[0].Names[0].Name
	if len(fd.Body.List) != 3 {
		bad(fmt.Sprintf("body has %d statements, expected declaration; switch; return", len(fd.Body.List)))
		return
	}
	res := ""
	if ds, ok := fd.Body.List[0].(*ast.DeclStmt); ok {
		if gd, ok := ds.Decl.(*ast.GenDecl); ok && gd.Tok == token.VAR && len(gd.Specs) == 1 {
			vs := gd.Specs[0].(*ast.ValueSpec)
			if len(vs.Names) == 1 && len(vs.Values) == 1 {
				if bl, ok := vs.Values[0].(*ast.BasicLit); ok && bl.Kind == kind && bl.Value == zero {
					res = vs.Names[0].Name
				}
			}
		}
	}
	if res == "" {
		bad("first statement is not `var conv T = " + zero + "`: " + str(fd.Body.List[0]))
		return
	}
	sw, ok := fd.Body.List[1].(*ast.SwitchStmt)
	if !ok || sw.Init != nil || sw.Tag == nil || str(sw.Tag) != par {
		bad("second statement is not `switch " + par + " {...}`")
		return
	}
	if rs, ok := fd.Body.List[2].(*ast.ReturnStmt); !ok || len(rs.Results) != 1 || str(rs.Results[0]) != res {
		bad("last statement is not `return " + res + "`: " + str(fd.Body.List[2]))
	}
	intLit := func(e ast.Expr) bool {
		if u, ok := e.(*ast.UnaryExpr); ok && u.Op == token.SUB {
			e = u.X
		}
		bl, ok := e.(*ast.BasicLit)
		return ok && bl.Kind == token.INT
	}
	labels := map[string]bool{}
	for _, c := range sw.Body.List {
		cc := c.(*ast.CaseClause)
		if cc.List == nil {
			bad("unexpected default clause: a code that is no token code must map to symbol 0 (error)")
			continue
		}
		if len(cc.List) != 1 || !intLit(cc.List[0]) {
			bad("case label is not one integer literal: " + str(cc))
			continue
		}
		lab := str(cc.List[0])
		if labels[lab] {
			bad("duplicate case " + lab)
		}
		labels[lab] = true
		okBody := false
		if len(cc.Body) == 1 {
			if as, ok := cc.Body[0].(*ast.AssignStmt); ok && as.Tok == token.ASSIGN && len(as.Lhs) == 1 && len(as.Rhs) == 1 && str(as.Lhs[0]) == res {
				if name == "translate" {
					okBody = intLit(as.Rhs[0])
				} else if bl, ok := as.Rhs[0].(*ast.BasicLit); ok && bl.Kind == token.STRING {
					okBody = true
				}
			}
		}
		if !okBody {
			bad("case " + lab + ": body is not `" + res + " = <literal>`")
		}
		if name == "translate" {
			rv.NTrans++
		}
	}
}

// traceReduceShape: the generated TraceReduce is nothing but
//
//	if IsTrace { switch reduceIndex { case <int>: fmt.Printf("<literal>", look, s) ... } }
//
// one integer literal per case, no default, no else branch: the line printed for a reduction is the emitted text of THAT
// rule (tied to the grammar by the emits clauses of buildTranslate) with the lookahead name and the goto state it is given.
func (rv *renderedVariant) traceReduceShape(fset *token.FileSet, fd *ast.FuncDecl) {
	str := func(n ast.Node) string {
		var b bytes.Buffer
		format.Node(&b, fset, n)
		return strings.Join(strings.Fields(b.String()), " ")
	}
	bad := func(msg string) { rv.ShapeT = append(rv.ShapeT, "TraceReduce: "+msg) }
	var names []string
	if fd.Type.Params != nil {
		for _, fl := range fd.Type.Params.List {
			for _, n := range fl.Names {
				names = append(names, n.Name+" "+str(fl.Type))
			}
		}
	}
	if strings.Join(names, ", ") != "reduceIndex int, s int, look string" {
		bad("parameter list is not (reduceIndex, s int, look string)")
		return
	}
	if len(fd.Body.List) != 1 {
		bad(fmt.Sprintf("body has %d statements, expected one `if IsTrace {...}`", len(fd.Body.List)))
		return
	}
	is, ok := fd.Body.List[0].(*ast.IfStmt)
	if !ok || is.Init != nil || is.Else != nil || str(is.Cond) != "IsTrace" || len(is.Body.List) != 1 {
		bad("body is not `if IsTrace { switch reduceIndex {...} }`")
		return
	}
	sw, ok := is.Body.List[0].(*ast.SwitchStmt)
	if !ok || sw.Init != nil || sw.Tag == nil || str(sw.Tag) != "reduceIndex" {
		bad("body is not `if IsTrace { switch reduceIndex {...} }`")
		return
	}
	labels := map[string]bool{}
	for _, c := range sw.Body.List {
		cc := c.(*ast.CaseClause)
		if cc.List == nil {
			bad("unexpected default clause")
			continue
		}
		bl, ok := cc.List[0].(*ast.BasicLit)
		if len(cc.List) != 1 || !ok || bl.Kind != token.INT {
			bad("case label is not one integer literal: " + str(cc.List[0]))
			continue
		}
		if labels[bl.Value] {
			bad("duplicate case " + bl.Value)
		}
		labels[bl.Value] = true
		okBody := false
		if len(cc.Body) == 1 {
			if es, ok := cc.Body[0].(*ast.ExprStmt); ok {
				if call, ok := es.X.(*ast.CallExpr); ok && str(call.Fun) == "fmt.Printf" && len(call.Args) == 3 && str(call.Args[1]) == "look" && str(call.Args[2]) == "s" {
					if f, ok := call.Args[0].(*ast.BasicLit); ok && f.Kind == token.STRING {
						okBody = true
					}
				}
			}
		}
		if !okBody {
			bad("case " + bl.Value + ": body is not `fmt.Printf(\"<literal>\", look, s)`")
		}
	}
}

// abstractReduce replaces the concrete cases of `switch reduceIndex` by the schematic case.
func (rv *renderedVariant) abstractReduce(fset *token.FileSet, fd *ast.FuncDecl, stack, sp, pop string) (int, int, string, bool) {
	var sw *ast.SwitchStmt
	ast.Inspect(fd.Body, func(n ast.Node) bool {
		if s, ok := n.(*ast.SwitchStmt); ok && sw == nil {
			if id, ok := s.Tag.(*ast.Ident); ok && id.Name == "reduceIndex" {
				sw = s
			}
		}
		return true
	})
	if sw == nil {
		rv.Shape = append(rv.Shape, "ReduceFunc has no `switch reduceIndex`")
		return 0, 0, "", false
	}
	str := func(n ast.Node) string {
		var b bytes.Buffer
		format.Node(&b, fset, n)
		return strings.Join(strings.Fields(b.String()), " ")
	}
	reAssign := regexp.MustCompile(`^dollarDolar\.YySymIndex = (\d+)$`)
	reDollar := regexp.MustCompile(`^Dollar := ` + regexp.QuoteMeta(stack) + `\[topIndex-(\d+):` + regexp.QuoteMeta(sp) + `\]$`)
	rePop := regexp.MustCompile(`^` + regexp.QuoteMeta(pop) + `\((\d+)\)$`)
	for _, c := range sw.Body.List {
		cc := c.(*ast.CaseClause)
		if cc.List == nil {
			rv.Shape = append(rv.Shape, "ReduceFunc: unexpected default case")
			continue
		}
		label := str(cc.List[0])
		if len(cc.Body) < 4 {
			rv.Shape = append(rv.Shape, "case "+label+": too few statements")
			continue
		}
		m1 := reAssign.FindStringSubmatch(str(cc.Body[0]))
		m2 := reDollar.FindStringSubmatch(strings.ReplaceAll(str(cc.Body[1]), " : ", ":"))
		s3 := str(cc.Body[2])
		m4 := rePop.FindStringSubmatch(str(cc.Body[len(cc.Body)-1]))
		switch {
		case m1 == nil:
			rv.Shape = append(rv.Shape, "case "+label+": first statement is not `dollarDolar.YySymIndex = <lhs id>`: "+str(cc.Body[0]))
		case m2 == nil:
			rv.Shape = append(rv.Shape, "case "+label+": second statement is not `Dollar := "+stack+"[topIndex-<n> : "+sp+"]`: "+str(cc.Body[1]))
		case s3 != "_ = Dollar":
			rv.Shape = append(rv.Shape, "case "+label+": third statement is not `_ = Dollar`")
		case m4 == nil:
			rv.Shape = append(rv.Shape, "case "+label+": last statement is not `"+pop+"(<n>)`: "+str(cc.Body[len(cc.Body)-1]))
		case m2[1] != m4[1]:
			rv.Shape = append(rv.Shape, "case "+label+": window size "+m2[1]+" differs from pop count "+m4[1])
		}
	}
	// schematic case (text-level replacement of the switch body)
	schem := fmt.Sprintf(`
	default:
		dollarDolar.YySymIndex = spec_lhs(reduceIndex)
		Dollar := %s[topIndex-spec_rhsLen(reduceIndex) : %s]
		_ = Dollar
		spec_userAction(reduceIndex, dollarDolar, Dollar)
		%s(spec_rhsLen(reduceIndex))
	`, stack, sp, pop)
	lo := fset.Position(sw.Body.Lbrace).Offset + 1
	hi := fset.Position(sw.Body.Rbrace).Offset
	return lo, hi, schem, true
}

var preludeRe = regexp.MustCompile(`(?s)/\*@prelude\s*\n(.*?)\*/`)

// loadRendered: extraction + loading of all rendered files in dir; returns variants and their packages
func (v *Verifier) loadRendered(dir, contractsFile, workDir string) ([]*renderedVariant, []*packages.Package, error) {
	cb, err := os.ReadFile(contractsFile)
	if err != nil {
		return nil, nil, err
	}
	m := preludeRe.FindSubmatch(cb)
	if m == nil {
		return nil, nil, fmt.Errorf("%s: no /*@prelude block", contractsFile)
	}
	prelude := string(m[1])
	files, _ := filepath.Glob(filepath.Join(dir, "*.go"))
	var rvs []*renderedVariant
	var pkgs []*packages.Package
	for _, f := range files {
		src, err := os.ReadFile(f)
		if err != nil {
			return nil, nil, err
		}
		name := strings.TrimSuffix(filepath.Base(f), ".go")
		rv, err := extractRendered(src, name, prelude, filepath.Join(workDir, "rendered"))
		if err != nil {
			return nil, nil, err
		}
		rvs = append(rvs, rv)
	}
	tsFiles, _ := filepath.Glob(filepath.Join(dir, "*.ts"))
	for _, f := range tsFiles {
		src, err := os.ReadFile(f)
		if err != nil {
			return nil, nil, err
		}
		name := strings.TrimSuffix(filepath.Base(f), ".ts")
		rv, err := extractRenderedTS(src, name, prelude, filepath.Join(workDir, "rendered"))
		if err != nil {
			return nil, nil, err
		}
		rvs = append(rvs, rv)
	}
	return rvs, pkgs, nil
}

// tokenString: the token sequence of a Go fragment (semicolons and layout ignored)
func tokenString(src []byte) string {
	fs := token.NewFileSet()
	file := fs.AddFile("", fs.Base(), len(src))
	var sc scanner.Scanner
	sc.Init(file, src, nil, 0)
	var out []string
	for {
		_, tok, lit := sc.Scan()
		if tok == token.EOF {
			break
		}
		if tok == token.SEMICOLON {
			continue
		}
		if lit != "" {
			out = append(out, lit)
		} else {
			out = append(out, tok.String())
		}
	}
	return strings.Join(out, " ")
}
