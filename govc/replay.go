package main

import (
	"bytes"
	"context"
	"encoding/json"
	"fmt"
	"go/types"
	"os"
	"os/exec"
	"path/filepath"
	"regexp"
	"strconv"
	"strings"
	"time"
)

type replayResult struct {
	rec        map[string]interface{}
	reproduced bool
}

// inputObservations: model terms that describe the function's inputs (entry state)
func (x *Exec) inputObservations(sig *types.Signature) []obsTerm {
	var out []obsTerm
	add := func(label, term string) { out = append(out, obsTerm{label, term}) }
	var obsVal func(label string, v Val, depth int)
	obsVal = func(label string, v Val, depth int) {
		switch u := v.Ty.Underlying().(type) {
		case *types.Basic:
			if isString(v.Ty) {
				return
			}
			add(label, v.S)
		case *types.Pointer:
			add(label, v.S)
			if st, ok := structOf(u.Elem()); ok && depth < 1 {
				for i := 0; i < st.NumFields(); i++ {
					f := st.Field(i)
					srt := x.ctx.Sort(f.Type())
					if srt == "Int" || srt == "Bool" {
						if _, isPtr := f.Type().Underlying().(*types.Pointer); isPtr {
							continue
						}
						add(label+"."+f.Name(), fmt.Sprintf("(select %s %s)", x.heapOf(x.entry, f), v.S))
					}
				}
			}
		case *types.Slice:
			add(label+".len", x.ctx.slLen(v))
			es := x.ctx.Sort(u.Elem())
			if es == "Int" || es == "Bool" {
				for i := 0; i < 10; i++ {
					add(fmt.Sprintf("%s[%d]", label, i), fmt.Sprintf("(select %s %d)", x.ctx.slArr(v), i))
				}
			} else if inner, ok := u.Elem().Underlying().(*types.Slice); ok && depth < 1 {
				if x.ctx.Sort(inner.Elem()) == "Int" {
					for i := 0; i < 6; i++ {
						row := Val{fmt.Sprintf("(select %s %d)", x.ctx.slArr(v), i), u.Elem()}
						add(fmt.Sprintf("%s[%d].len", label, i), x.ctx.slLen(row))
						for j := 0; j < 8; j++ {
							add(fmt.Sprintf("%s[%d][%d]", label, i, j), fmt.Sprintf("(select %s %d)", x.ctx.slArr(row), j))
						}
					}
				}
			}
		}
	}
	if r := sig.Recv(); r != nil && r.Name() != "" {
		if v, ok := x.entry.vars[r]; ok {
			obsVal(r.Name(), v, 0)
		}
	}
	for i := 0; i < sig.Params().Len(); i++ {
		p := sig.Params().At(i)
		if v, ok := x.entry.vars[p]; ok {
			obsVal(p.Name(), v, 0)
		}
	}
	return out
}

// specToGo compiles a spec node to a Go boolean expression (quantifier-free subset)
func specToGo(n SpecNode, resultName string) (string, bool) {
	switch s := n.(type) {
	case *SImp:
		a, ok1 := specToGo(s.A, resultName)
		b, ok2 := specToGo(s.B, resultName)
		return "(!(" + a + ") || (" + b + "))", ok1 && ok2
	case *SIff:
		a, ok1 := specToGo(s.A, resultName)
		b, ok2 := specToGo(s.B, resultName)
		return "((" + a + ") == (" + b + "))", ok1 && ok2
	case *SGo:
		src := s.Src
		if strings.Contains(src, "old(") || strings.Contains(src, "before(") || strings.Contains(src, "has(") || strings.Contains(src, "seen(") {
			return "", false
		}
		src = regexp.MustCompile(`\bfresh\([^()]*\)`).ReplaceAllString(src, "true")
		src = regexp.MustCompile(`\bresult\b`).ReplaceAllString(src, resultName)
		// sub-clauses were replaced by placeholders only in the parsed form; Src still has the original text,
		// so nested ==> must be compiled: detect and give up if present inside parentheses
		if needsSpec(src) {
			return "", false
		}
		return src, true
	}
	return "", false
}

func goLit(v string) string {
	v = strings.TrimSpace(v)
	if v == "true" || v == "false" {
		return v
	}
	if _, err := strconv.ParseInt(v, 10, 64); err == nil {
		return v
	}
	return "0"
}

func (r *Report) findUnit(name string) (*FuncUnit, *Contract) {
	for k, cu := range r.V.funcs {
		if r.V.unitName(cu) == name {
			return cu, r.V.cs.Funcs[k]
		}
	}
	return nil, nil
}

func (r *Report) tryReplay(o *Obligation) *replayResult {
	cu, con := r.findUnit(o.Func)
	if cu == nil || con == nil {
		return nil
	}
	res := &replayResult{rec: map[string]interface{}{}}
	if len(o.Model) > 0 {
		res.rec["model"] = o.Model
	}
	// 1. model-based replay
	if o.Status == "failed" && len(o.Model) > 0 {
		if src, ok := r.modelTest(cu, con, o); ok {
			out, ran := r.runInjectedTest(cu, src, "TestGovcReplay")
			res.rec["generated_test"] = src
			res.rec["test_output"] = trunc(out, 3000)
			res.rec["rerun"] = "go test -tags verif -overlay <overlay mapping zz_govc_replay_test.go to the generated test> -vet=off -count=1 -run '^TestGovcReplay$' in " + filepath.Dir(r.V.fset.Position(cu.Decl.Pos()).Filename)
			if ran && (strings.Contains(out, "GOVC-REPLAY: clause = false") || (isSafetyKind(o.Kind) && strings.Contains(out, "GOVC-REPLAY: PANIC"))) {
				res.reproduced = true
				return res
			}
		}
	}
	// 2. bounded search with the function's run-time contract harness
	h := filepath.Join(r.HarnessDir, sanitize(o.Func)+"_test.go")
	if b, err := os.ReadFile(h); err == nil {
		out, ran := r.runInjectedTest(cu, string(b), "TestGovcHarness")
		res.rec["harness"] = h
		res.rec["harness_output"] = trunc(out, 3000)
		if ran {
			for _, ln := range strings.Split(out, "\n") {
				if strings.HasPrefix(ln, "FAILING-INPUT:") {
					res.rec["failing_input"] = strings.TrimSpace(ln[len("FAILING-INPUT:"):])
					res.reproduced = true
					break
				}
			}
		}
	}
	return res
}

func isSafetyKind(k string) bool {
	switch k {
	case "bounds", "nil", "typeassert", "divzero", "nopanic":
		return true
	}
	return false
}

func (r *Report) runInjectedTest(cu *FuncUnit, src string, testName string) (string, bool) {
	pkgDir := filepath.Dir(r.V.fset.Position(cu.Decl.Pos()).Filename)
	tmp, err := os.MkdirTemp("", "govc-replay")
	if err != nil {
		return err.Error(), false
	}
	defer os.RemoveAll(tmp)
	tf := filepath.Join(tmp, "t_test.go")
	os.WriteFile(tf, []byte(src), 0o644)
	ov := map[string]interface{}{"Replace": map[string]string{filepath.Join(pkgDir, "zz_govc_replay_test.go"): tf}}
	ob, _ := json.Marshal(ov)
	of := filepath.Join(tmp, "ov.json")
	os.WriteFile(of, ob, 0o644)
	ctx, cancel := context.WithTimeout(context.Background(), 120*time.Second)
	defer cancel()
	cmd := exec.CommandContext(ctx, "go", "test", "-tags", "verif", "-overlay", of, "-vet=off", "-count=1", "-timeout", "60s", "-run", "^"+testName+"$", "-v", ".")
	cmd.Dir = pkgDir
	cmd.Env = append(os.Environ(), "GOFLAGS=-mod=mod", "GOPROXY=off", "GOSUMDB=off", "GOTOOLCHAIN=local")
	var out bytes.Buffer
	cmd.Stdout = &out
	cmd.Stderr = &out
	cmd.Run()
	return out.String(), true
}

// modelTest builds a Go test from the solver model for simple signatures
func (r *Report) modelTest(cu *FuncUnit, con *Contract, o *Obligation) (string, bool) {
	sig := cu.Obj.Type().(*types.Signature)
	pkg := cu.Pkg.Types
	qual := func(p *types.Package) string {
		if p == pkg {
			return ""
		}
		return p.Name()
	}
	var b strings.Builder
	imports := map[string]string{}
	var build func(label string, t types.Type) (string, bool)
	refVars := map[string]string{}
	build = func(label string, t types.Type) (string, bool) {
		switch u := t.Underlying().(type) {
		case *types.Basic:
			if isString(t) {
				return `""`, true
			}
			v, ok := o.Model[label]
			if !ok {
				return "0", true
			}
			if isBool(t) {
				return goLit(v), true
			}
			return fmt.Sprintf("%s(%s)", types.TypeString(t, qual), goLit(v)), true
		case *types.Pointer:
			ref := o.Model[label]
			if ref == "0" {
				return "nil", true
			}
			if name, ok := refVars[ref]; ok && ref != "" {
				return name, true
			}
			st, ok := structOf(u.Elem())
			if !ok {
				return "", false
			}
			name := "obj_" + sanitize(label)
			var fs []string
			for i := 0; i < st.NumFields(); i++ {
				f := st.Field(i)
				if v, ok := o.Model[label+"."+f.Name()]; ok {
					if isBool(f.Type()) {
						fs = append(fs, fmt.Sprintf("%s: %s", f.Name(), goLit(v)))
					} else {
						fs = append(fs, fmt.Sprintf("%s: %s(%s)", f.Name(), types.TypeString(f.Type(), qual), goLit(v)))
					}
				}
			}
			fmt.Fprintf(&b, "\t%s := &%s{%s}\n", name, types.TypeString(u.Elem(), qual), strings.Join(fs, ", "))
			if ref != "" {
				refVars[ref] = name
			}
			return name, true
		case *types.Slice:
			n, _ := strconv.Atoi(o.Model[label+".len"])
			if n > 10 {
				return "", false
			}
			if isInt(u.Elem()) {
				var es []string
				for i := 0; i < n; i++ {
					es = append(es, goLit(o.Model[fmt.Sprintf("%s[%d]", label, i)]))
				}
				return fmt.Sprintf("%s{%s}", types.TypeString(t, qual), strings.Join(es, ", ")), true
			}
			if inner, ok := u.Elem().Underlying().(*types.Slice); ok && isInt(inner.Elem()) {
				if n > 6 {
					return "", false
				}
				var rows []string
				for i := 0; i < n; i++ {
					m, _ := strconv.Atoi(o.Model[fmt.Sprintf("%s[%d].len", label, i)])
					if m > 8 {
						return "", false
					}
					var es []string
					for j := 0; j < m; j++ {
						es = append(es, goLit(o.Model[fmt.Sprintf("%s[%d][%d]", label, i, j)]))
					}
					rows = append(rows, "{"+strings.Join(es, ", ")+"}")
				}
				return fmt.Sprintf("%s{%s}", types.TypeString(t, qual), strings.Join(rows, ", ")), true
			}
		}
		return "", false
	}
	var args []string
	recvName := ""
	if rc := sig.Recv(); rc != nil {
		e, ok := build(rc.Name(), rc.Type())
		if !ok {
			return "", false
		}
		if e == "nil" {
			el, _ := ptrElem(rc.Type())
			e = "&" + types.TypeString(el, qual) + "{}"
		}
		recvName = rc.Name()
		fmt.Fprintf(&b, "\t%s := %s\n", recvName, e)
	}
	for i := 0; i < sig.Params().Len(); i++ {
		p := sig.Params().At(i)
		e, ok := build(p.Name(), p.Type())
		if !ok {
			return "", false
		}
		fmt.Fprintf(&b, "\t%s := %s\n\t_ = %s\n", p.Name(), e, p.Name())
		args = append(args, p.Name())
	}
	var resNames []string
	for i := 0; i < sig.Results().Len(); i++ {
		name := sig.Results().At(i).Name()
		if name == "" || name == "_" {
			name = fmt.Sprintf("res%d", i)
			if i < len(con.Results) {
				name = con.Results[i]
			}
		}
		resNames = append(resNames, name)
	}
	callee := cu.Obj.Name()
	if recvName != "" {
		callee = recvName + "." + callee
	}
	call := fmt.Sprintf("%s(%s)", callee, strings.Join(args, ", "))
	if len(resNames) > 0 {
		call = strings.Join(resNames, ", ") + " := " + call
	}
	clause := "true"
	if o.Kind == "post" {
		var cl *Clause
		k := 0
		for _, c := range con.Clauses {
			if c.Kind == "ensures" {
				if strings.HasSuffix(o.Name, fmt.Sprintf("/post#%d", k)) {
					cl = c
				}
				k++
			}
		}
		if cl == nil || cl.Node == nil {
			return "", false
		}
		first := "result"
		if len(resNames) > 0 {
			first = resNames[0]
		}
		g, ok := specToGo(cl.Node, first)
		if !ok {
			return "", false
		}
		clause = g
	} else if !isSafetyKind(o.Kind) {
		return "", false
	}
	for _, imp := range cu.Pkg.Syntax {
		_ = imp
	}
	// imports needed by the clause: any package alias used as "alias." that the package's files import
	for _, f := range cu.Pkg.Syntax {
		for _, is := range f.Imports {
			path := strings.Trim(is.Path.Value, "\"")
			name := filepath.Base(path)
			if is.Name != nil {
				name = is.Name.Name
			}
			if strings.Contains(clause+b.String(), name+".") {
				imports[name] = path
			}
		}
	}
	var src strings.Builder
	fmt.Fprintf(&src, "//go:build verif\n\npackage %s\n\nimport (\n\t\"fmt\"\n\t\"testing\"\n", pkg.Name())
	for name, path := range imports {
		fmt.Fprintf(&src, "\t%s %q\n", name, path)
	}
	fmt.Fprintf(&src, ")\n\n// generated by govc from the solver model of obligation %s\nfunc TestGovcReplay(t *testing.T) {\n", o.Name)
	src.WriteString("\tdefer func() {\n\t\tif r := recover(); r != nil {\n\t\t\tfmt.Println(\"GOVC-REPLAY: PANIC\", r)\n\t\t}\n\t}()\n")
	src.WriteString(b.String())
	fmt.Fprintf(&src, "\t%s\n", call)
	for _, rn := range resNames {
		fmt.Fprintf(&src, "\t_ = %s\n", rn)
	}
	fmt.Fprintf(&src, "\tfmt.Println(\"GOVC-REPLAY: clause =\", %s)\n}\n", clause)
	return src.String(), true
}
