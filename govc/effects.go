package main

import (
	"fmt"
	"go/ast"
	"go/constant"
	"go/token"
	"go/types"
	"strings"
)

// shortFuncName: "fmt.Errorf", "(*os.File).Close", "(*builder.TemplateBuilder).WriteFile"
func shortFuncName(fn *types.Func) string {
	sig := fn.Type().(*types.Signature)
	pkg := ""
	if fn.Pkg() != nil {
		pkg = fn.Pkg().Name()
	}
	if r := sig.Recv(); r != nil {
		t := r.Type()
		star := ""
		if p, ok := t.(*types.Pointer); ok {
			t = p.Elem()
			star = "*"
		}
		name := types.TypeString(t, func(p *types.Package) string { return p.Name() })
		return "(" + star + name + ")." + fn.Name()
	}
	return pkg + "." + fn.Name()
}

type callSite struct {
	name string
	pos  token.Pos
	end  token.Pos
}

func (v *Verifier) callsIn(cu *FuncUnit) []callSite {
	info := cu.Pkg.TypesInfo
	var out []callSite
	ast.Inspect(cu.Decl.Body, func(n ast.Node) bool {
		call, ok := n.(*ast.CallExpr)
		if !ok {
			return true
		}
		if tv, ok := info.Types[call.Fun]; ok && (tv.IsType() || tv.IsBuiltin()) {
			if id, ok := call.Fun.(*ast.Ident); ok && id.Name == "panic" {
				out = append(out, callSite{"panic", call.Pos(), call.End()})
			}
			return true
		}
		x := &Exec{v: v}
		fn := x.calleeOf(info, call)
		if fn == nil {
			out = append(out, callSite{"<dynamic call " + exprStr(call.Fun) + ">", call.Pos(), call.End()})
			return true
		}
		out = append(out, callSite{shortFuncName(fn), call.Pos(), call.End()})
		return true
	})
	return out
}

// effectObligations: typestate/effect clauses, decided by a syntactic analysis of the real function body.
//   effect after "os.Create" only a, b, c     every call textually after the first call of os.Create is one of a, b, c
//   effect io_only a, b, c                    every call in the body is one of a, b, c
//   effect last_write (*os.File).WriteString b.CodeLast    the last call of that function has this argument text
func (v *Verifier) effectObligations(cu *FuncUnit, con *Contract, name string) []*Obligation {
	var obls []*Obligation
	add := func(oname, src string, ok bool, pos token.Pos, props []string, detail string) {
		o := &Obligation{Func: name, Name: name + "/" + oname, Kind: "effect", Props: props, Goal: "true", Src: src, Pos: posStr(v.fset, pos), Solver: "effect-analysis(syntactic)"}
		if ok {
			o.Status = "proved"
		} else {
			o.Status = "failed"
			o.Goal = "false"
			o.Output = detail
		}
		obls = append(obls, o)
	}
	for _, cl := range con.Clauses {
		if cl.Kind != "effect" {
			continue
		}
		txt := strings.TrimSpace(cl.Text)
		calls := v.callsIn(cu)
		switch {
		case strings.HasPrefix(txt, "after "):
			rest := strings.TrimSpace(txt[6:])
			end := strings.Index(rest[1:], "\"")
			trigger := rest[1 : 1+end]
			rest = strings.TrimSpace(rest[2+end:])
			if !strings.HasPrefix(rest, "only") {
				panic(evalError{fmt.Sprintf("%s:%d: BINDING: effect after ... only ...", cl.File, cl.Line)})
			}
			allowed := map[string]bool{}
			for _, a := range splitCommaTop(rest[4:]) {
				allowed[strings.TrimSpace(a)] = true
			}
			var trig *callSite
			for i := range calls {
				if calls[i].name == trigger {
					trig = &calls[i]
					break
				}
			}
			if trig == nil {
				panic(evalError{fmt.Sprintf("%s:%d: BINDING: effect: no call of %s in %s", cl.File, cl.Line, trigger, name)})
			}
			// enclosing loop of the trigger: calls inside it count as "after"
			var loopStart, loopEnd token.Pos
			ast.Inspect(cu.Decl.Body, func(n ast.Node) bool {
				switch l := n.(type) {
				case *ast.ForStmt, *ast.RangeStmt:
					if l.Pos() <= trig.pos && trig.end <= l.End() && loopStart == token.NoPos {
						loopStart, loopEnd = l.Pos(), l.End()
					}
				}
				return true
			})
			k := 0
			for _, c := range calls {
				after := c.pos >= trig.end || (loopStart != token.NoPos && c.pos >= loopStart && c.end <= loopEnd && c.pos != trig.pos)
				if !after {
					continue
				}
				add(fmt.Sprintf("effect:after-%s#%d", sanitize(trigger), k), cl.Text+"   [call of "+c.name+"]", allowed[c.name], c.pos, cl.Props,
					"call of "+c.name+" after "+trigger+" is not in the allowed (input-infallible) list")
				k++
			}
			// defers registered before the trigger run after it
			ast.Inspect(cu.Decl.Body, func(n ast.Node) bool {
				if d, ok := n.(*ast.DeferStmt); ok && d.Pos() < trig.pos {
					add(fmt.Sprintf("effect:defer-before-%s#%d", sanitize(trigger), k), cl.Text, false, d.Pos(), cl.Props, "deferred call registered before "+trigger+" runs after it")
					k++
				}
				return true
			})
		case strings.HasPrefix(txt, "no_recover"):
			// no function of the repository reachable from this one calls recover(): a failure in front of the first
			// write is never swallowed - it ends the run (panic) or comes back as an error
			var where []string
			for _, c := range v.reachable([]*FuncUnit{cu}) {
				info := c.Pkg.TypesInfo
				ast.Inspect(c.Decl.Body, func(n ast.Node) bool {
					if call, ok := n.(*ast.CallExpr); ok {
						if id, ok := call.Fun.(*ast.Ident); ok && id.Name == "recover" {
							if _, isBuiltin := info.Uses[id].(*types.Builtin); isBuiltin {
								where = append(where, v.unitName(c)+" ("+posStr(v.fset, call.Pos())+")")
							}
						}
					}
					return true
				})
			}
			add("effect:no_recover", cl.Text, len(where) == 0, cu.Decl.Pos(), cl.Props, "recover() is called in "+strings.Join(where, ", "))
		case strings.HasPrefix(txt, "io_only"):
			allowed := map[string]bool{}
			for _, a := range splitCommaTop(txt[7:]) {
				allowed[strings.TrimSpace(a)] = true
			}
			for k, c := range calls {
				add(fmt.Sprintf("effect:io_only#%d", k), cl.Text+"   [call of "+c.name+"]", allowed[c.name], c.pos, cl.Props, "call of "+c.name+" is not in the io_only list")
			}
		case strings.HasPrefix(txt, "last_call "):
			f := strings.Fields(txt[10:])
			want := strings.TrimSpace(strings.TrimPrefix(txt[10:], f[0]))
			var last *ast.CallExpr
			info := cu.Pkg.TypesInfo
			ast.Inspect(cu.Decl.Body, func(n ast.Node) bool {
				if call, ok := n.(*ast.CallExpr); ok {
					x := &Exec{v: v}
					if fn := x.calleeOf(info, call); fn != nil && shortFuncName(fn) == f[0] {
						last = call
					}
				}
				return true
			})
			ok := last != nil && len(last.Args) > 0 && exprStr(last.Args[0]) == want
			pos := cu.Decl.Pos()
			if last != nil {
				pos = last.Pos()
			}
			add("effect:last_call", cl.Text, ok, pos, cl.Props, "the last call of "+f[0]+" does not write "+want)
		case strings.HasPrefix(txt, "const_suffix "):
			f := strings.Fields(txt[13:])
			want := strings.Trim(strings.TrimSpace(strings.TrimPrefix(txt[13:], f[0])), "\"")
			ok := false
			if o := cu.Pkg.Types.Scope().Lookup(f[0]); o != nil {
				// package variable initialised by a constant string: find its value spec
				for _, file := range cu.Pkg.Syntax {
					for _, d := range file.Decls {
						gd, isG := d.(*ast.GenDecl)
						if !isG {
							continue
						}
						for _, sp := range gd.Specs {
							vs, isV := sp.(*ast.ValueSpec)
							if !isV {
								continue
							}
							for i, nm := range vs.Names {
								if nm.Name == f[0] && i < len(vs.Values) {
									if tv, has := cu.Pkg.TypesInfo.Types[vs.Values[i]]; has && tv.Value != nil && tv.Value.Kind() == constant.String {
										ok = strings.HasSuffix(strings.TrimSpace(constant.StringVal(tv.Value)), want)
									}
								}
							}
						}
					}
				}
			}
			add("effect:const_suffix:"+f[0], cl.Text, ok, cu.Decl.Pos(), cl.Props, "constant "+f[0]+" does not end with "+want)
		case strings.HasPrefix(txt, "sequence "):
			// effect sequence f1, f2, ...: each function is called, and the first calls occur in this source order
			names := splitCommaTop(txt[9:])
			last := token.NoPos
			for k, nm := range names {
				nm = strings.TrimSpace(nm)
				var first *callSite
				for i := range calls {
					if calls[i].name == nm {
						first = &calls[i]
						break
					}
				}
				ok := first != nil && first.pos > last
				pos := cu.Decl.Pos()
				why := "no call of " + nm
				if first != nil {
					pos = first.pos
					why = "call of " + nm + " does not come after the previous stage"
					last = first.pos
				}
				add(fmt.Sprintf("effect:sequence#%d:%s", k, sanitize(nm)), cl.Text, ok, pos, cl.Props, why)
			}
		case strings.HasPrefix(txt, "template_fields "):
			// effect template_fields <const> <Type>: every action of the constant template reads FIELDS of Type only - no method of
			// that name exists (text/template would call it while the output file is already open), no call / pipeline
			f := strings.Fields(txt[16:])
			if len(f) != 2 {
				panic(evalError{fmt.Sprintf("%s:%d: BINDING: effect template_fields <const> <Type>", cl.File, cl.Line)})
			}
			ok := false
			why := "constant " + f[0] + " not found"
			tn, _ := cu.Pkg.Types.Scope().Lookup(f[1]).(*types.TypeName)
			if tn == nil {
				panic(evalError{fmt.Sprintf("%s:%d: BINDING: effect template_fields: no type %s", cl.File, cl.Line, f[1])})
			}
			if text, found := v.constString(cu, f[0]); found {
				ok = true
				why = ""
				for _, act := range templateActions(text) {
					if strings.Contains(act, "|") || strings.Contains(act, "call ") || strings.Contains(act, "(") {
						ok = false
						why = "template action {{" + act + "}} is a call or pipeline"
						break
					}
					for _, name := range dotNames(act) {
						obj, _, _ := types.LookupFieldOrMethod(types.NewPointer(tn.Type()), true, cu.Pkg.Types, name)
						if _, isField := obj.(*types.Var); !isField {
							ok = false
							why = "template action {{" + act + "}}: " + name + " is not a field of " + f[1] + " (a method is evaluated while the output file is open)"
						}
					}
					if !ok {
						break
					}
				}
			}
			add("effect:template_fields:"+f[0], cl.Text, ok, cu.Decl.Pos(), cl.Props, why)
		default:
			panic(evalError{fmt.Sprintf("%s:%d: BINDING: unknown effect clause %q", cl.File, cl.Line, txt)})
		}
	}
	return obls
}

// constString: the value of a package-level variable or constant initialised by a constant string
func (v *Verifier) constString(cu *FuncUnit, name string) (string, bool) {
	for _, file := range cu.Pkg.Syntax {
		for _, d := range file.Decls {
			gd, isG := d.(*ast.GenDecl)
			if !isG {
				continue
			}
			for _, sp := range gd.Specs {
				vs, isV := sp.(*ast.ValueSpec)
				if !isV {
					continue
				}
				for i, nm := range vs.Names {
					if nm.Name == name && i < len(vs.Values) {
						if tv, has := cu.Pkg.TypesInfo.Types[vs.Values[i]]; has && tv.Value != nil && tv.Value.Kind() == constant.String {
							return constant.StringVal(tv.Value), true
						}
					}
				}
			}
		}
	}
	return "", false
}

// templateActions: the texts between {{ and }}
func templateActions(t string) []string {
	var out []string
	for {
		i := strings.Index(t, "{{")
		if i < 0 {
			return out
		}
		j := strings.Index(t[i:], "}}")
		if j < 0 {
			return append(out, t[i+2:])
		}
		out = append(out, strings.TrimSpace(t[i+2:i+j]))
		t = t[i+j+2:]
	}
}

// dotNames: the identifiers that follow a '.' in a template action
func dotNames(act string) []string {
	var out []string
	for i := 0; i < len(act); i++ {
		if act[i] != '.' {
			continue
		}
		j := i + 1
		for j < len(act) && (act[j] == '_' || act[j] >= '0' && act[j] <= '9' || act[j] >= 'a' && act[j] <= 'z' || act[j] >= 'A' && act[j] <= 'Z') {
			j++
		}
		if j > i+1 {
			out = append(out, act[i+1:j])
		}
		i = j - 1
	}
	return out
}
