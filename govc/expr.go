package main

import (
	"fmt"
	"go/ast"
	"go/constant"
	"go/token"
	"go/types"
	"strconv"
	"strings"
)

// evalEnv: how identifiers are resolved
type evalEnv struct {
	info  *types.Info      // code mode when non-nil
	pkg   *types.Package   // package for name resolution
	scope *types.Scope     // spec mode: scope for locals (may be nil)
	pos   token.Pos        // spec mode: position for LookupParent
	bound map[string]Val   // spec mode bound names (quantified vars, formals, results)
	old   *State           // state for old(...)
	subs  map[string]SpecNode
	spec  bool
	prefix string          // obligation-name prefix for inlined calls
}

func (e *evalEnv) withBound(name string, v Val) *evalEnv {
	n := *e
	n.bound = map[string]Val{}
	for k, vv := range e.bound {
		n.bound[k] = vv
	}
	n.bound[name] = v
	return &n
}

type evalError struct{ msg string }

func (x *Exec) fail(pos token.Pos, format string, args ...interface{}) {
	panic(evalError{fmt.Sprintf("%s: %s", posStr(x.v.fset, pos), fmt.Sprintf(format, args...))})
}

func (x *Exec) typeOf(env *evalEnv, e ast.Expr) types.Type {
	if env.info != nil {
		if tv, ok := env.info.Types[e]; ok {
			return tv.Type
		}
		if id, ok := e.(*ast.Ident); ok {
			if o := env.info.ObjectOf(id); o != nil {
				return o.Type()
			}
		}
	}
	return nil
}

func isInt(t types.Type) bool {
	b, ok := t.Underlying().(*types.Basic)
	return ok && b.Info()&types.IsInteger != 0
}
func isUnsigned(t types.Type) bool {
	b, ok := t.Underlying().(*types.Basic)
	return ok && b.Info()&types.IsUnsigned != 0
}
func isString(t types.Type) bool {
	b, ok := t.Underlying().(*types.Basic)
	return ok && b.Info()&types.IsString != 0
}
func isBool(t types.Type) bool {
	b, ok := t.Underlying().(*types.Basic)
	return ok && b.Info()&types.IsBoolean != 0
}
func isNilType(t types.Type) bool {
	b, ok := t.(*types.Basic)
	return ok && b.Kind() == types.UntypedNil
}
func structOf(t types.Type) (*types.Struct, bool) {
	s, ok := t.Underlying().(*types.Struct)
	return s, ok
}
func ptrElem(t types.Type) (types.Type, bool) {
	p, ok := t.Underlying().(*types.Pointer)
	if !ok {
		return nil, false
	}
	return p.Elem(), true
}

var tInt = types.Typ[types.Int]
var tBool = types.Typ[types.Bool]
var tString = types.Typ[types.String]

func (x *Exec) constVal(cv constant.Value, t types.Type) (Val, bool) {
	switch cv.Kind() {
	case constant.Int:
		if i, ok := constant.Int64Val(cv); ok {
			return Val{num(i), t}, true
		}
		// big constant (e.g. uint64 max)
		s := cv.ExactString()
		if strings.HasPrefix(s, "-") {
			return Val{"(- " + s[1:] + ")", t}, true
		}
		return Val{s, t}, true
	case constant.Bool:
		if constant.BoolVal(cv) {
			return Val{"true", t}, true
		}
		return Val{"false", t}, true
	case constant.String:
		return Val{x.ctx.StrLit(constant.StringVal(cv)), t}, true
	}
	return Val{}, false
}

// nilOf returns the nil/zero term for comparison against a value of type t
func (x *Exec) nilOf(t types.Type) string {
	return x.ctx.Zero(t)
}

// eqVals builds equality between two values (handles nil)
func (x *Exec) eqVals(a, b Val) string {
	if isNilType(a.Ty) && isNilType(b.Ty) {
		return "true"
	}
	if isNilType(a.Ty) {
		a, b = b, a
	}
	if isNilType(b.Ty) {
		switch a.Ty.Underlying().(type) {
		case *types.Slice:
			return x.ctx.slNil(a)
		case *types.Map:
			return eq(a.S, x.ctx.Zero(a.Ty)) // approximate: nil map
		case *types.Interface:
			return eq("(itag "+a.S+")", "0")
		default:
			return eq(a.S, "0")
		}
	}
	// interface vs concrete comparison
	_, ai := a.Ty.Underlying().(*types.Interface)
	_, bi := b.Ty.Underlying().(*types.Interface)
	if ai && !bi {
		b = x.toIface(b)
	} else if bi && !ai {
		a = x.toIface(a)
	}
	return eq(a.S, b.S)
}

func (x *Exec) toIface(v Val) Val {
	if _, ok := v.Ty.Underlying().(*types.Interface); ok {
		return v
	}
	if isNilType(v.Ty) {
		return Val{"(mk_iface 0 0)", types.NewInterfaceType(nil, nil)}
	}
	tag := x.ctx.TypeTag(v.Ty)
	srt := x.ctx.Sort(v.Ty)
	if srt == "Int" {
		return Val{fmt.Sprintf("(mk_iface %d %s)", tag, v.S), types.NewInterfaceType(nil, nil)}
	}
	// box non-int payloads through an injective uninterpreted function
	fn := "box_" + mangle(srt)
	x.ctx.decl("fun:"+fn, fmt.Sprintf("(declare-fun %s (%s) Int)", fn, srt))
	x.ctx.decl("fun:un"+fn, fmt.Sprintf("(declare-fun un%s (Int) %s)", fn, srt))
	if x.inSpec == 0 {
		x.st.assume(eq(fmt.Sprintf("(un%s (%s %s))", fn, fn, v.S), v.S))
	}
	return Val{fmt.Sprintf("(mk_iface %d (%s %s))", tag, fn, v.S), types.NewInterfaceType(nil, nil)}
}

func (x *Exec) fromIface(v Val, t types.Type) Val {
	srt := x.ctx.Sort(t)
	if srt == "Int" {
		return Val{"(ival " + v.S + ")", t}
	}
	fn := "box_" + mangle(srt)
	x.ctx.decl("fun:"+fn, fmt.Sprintf("(declare-fun %s (%s) Int)", fn, srt))
	x.ctx.decl("fun:un"+fn, fmt.Sprintf("(declare-fun un%s (Int) %s)", fn, srt))
	return Val{fmt.Sprintf("(un%s (ival %s))", fn, v.S), t}
}

// convertTo adapts v to the static type t (interface boxing, untyped nil)
func (x *Exec) convertTo(v Val, t types.Type) Val {
	if t == nil {
		return v
	}
	if isNilType(v.Ty) {
		return Val{x.ctx.Zero(t), t}
	}
	if _, ok := t.Underlying().(*types.Interface); ok {
		iv := x.toIface(v)
		return Val{iv.S, t}
	}
	return Val{v.S, t}
}

// ---------- identifier resolution ----------

func (x *Exec) lookupObj(env *evalEnv, id *ast.Ident) types.Object {
	if env.info != nil {
		if o := env.info.ObjectOf(id); o != nil {
			return o
		}
	}
	if env.scope != nil {
		sc := innermostScope(env.scope, env.pos)
		if _, o := sc.LookupParent(id.Name, env.pos); o != nil {
			return o
		}
		// search all child scopes for a unique variable of that name (loop-local variables)
		if o, n := findInScopes(env.scope, id.Name); n == 1 {
			return o
		} else if n > 1 {
			x.fail(id.Pos(), "BINDING: identifier %q is ambiguous here (%d declarations in the function)", id.Name, n)
		}
	}
	if env.pkg != nil {
		if o := env.pkg.Scope().Lookup(id.Name); o != nil {
			return o
		}
		// imported package names live in file scopes
		ps := env.pkg.Scope()
		for i := 0; i < ps.NumChildren(); i++ {
			if o, ok := ps.Child(i).Lookup(id.Name).(*types.PkgName); ok {
				return o
			}
		}
	}
	if o := types.Universe.Lookup(id.Name); o != nil {
		return o
	}
	return nil
}

func findInScopes(sc *types.Scope, name string) (types.Object, int) {
	var found types.Object
	n := 0
	var walk func(s *types.Scope)
	walk = func(s *types.Scope) {
		if o := s.Lookup(name); o != nil {
			if found == nil {
				found = o
			}
			n++
		}
		for i := 0; i < s.NumChildren(); i++ {
			walk(s.Child(i))
		}
	}
	walk(sc)
	return found, n
}

func (x *Exec) globalVal(st *State, o *types.Var) Val {
	if v, ok := st.vars[o]; ok {
		return v
	}
	name := "G_" + o.Pkg().Name() + "_" + o.Name() + "$0"
	c := x.ctx.Const(name, x.ctx.Sort(o.Type()))
	return Val{c, o.Type()}
}

func (x *Exec) ident(env *evalEnv, id *ast.Ident) Val {
	if env.bound != nil {
		if v, ok := env.bound[id.Name]; ok {
			return v
		}
	}
	if env.subs != nil {
		if n, ok := env.subs[id.Name]; ok {
			return Val{x.spec(env, n), tBool}
		}
	}
	if env.spec {
		if v, ok := x.st.ghost[id.Name]; ok {
			return v
		}
	}
	switch id.Name {
	case "true":
		return Val{"true", tBool}
	case "false":
		return Val{"false", tBool}
	case "nil":
		return Val{"0", types.Typ[types.UntypedNil]}
	case "_":
		x.fail(id.Pos(), "blank identifier read")
	}
	o := x.lookupObj(env, id)
	if o == nil {
		x.fail(id.Pos(), "BINDING: unresolved identifier %q", id.Name)
	}
	switch ob := o.(type) {
	case *types.Const:
		if v, ok := x.constVal(ob.Val(), ob.Type()); ok {
			return v
		}
		x.fail(id.Pos(), "unsupported constant %s", id.Name)
	case *types.Var:
		if ob.Parent() != nil && ob.Pkg() != nil && ob.Parent() == ob.Pkg().Scope() {
			return x.globalVal(x.st, ob)
		}
		if v, ok := x.st.vars[ob]; ok {
			if x.boxed[ob] {
				return x.loadCell(x.st, v.S, ob.Type(), id.Pos())
			}
			return v
		}
		x.fail(id.Pos(), "BINDING: variable %q has no value in the current state (not in scope here)", id.Name)
	case *types.Nil:
		return Val{"0", types.Typ[types.UntypedNil]}
	case *types.Func:
		return Val{fmt.Sprintf("%d", x.funcTag(ob)), ob.Type()}
	}
	x.fail(id.Pos(), "unsupported identifier %q (%T)", id.Name, o)
	return Val{}
}

func (x *Exec) funcTag(f *types.Func) int {
	k := f.FullName()
	if v, ok := x.ctx.funcTags[k]; ok {
		return v
	}
	v := len(x.ctx.funcTags) + 1
	x.ctx.funcTags[k] = v
	return v
}

// ---------- expressions ----------

func (x *Exec) expr(env *evalEnv, e ast.Expr) Val {
	// constants first (code mode)
	if env.info != nil {
		if tv, ok := env.info.Types[e]; ok && tv.Value != nil {
			if v, ok := x.constVal(tv.Value, tv.Type); ok {
				return v
			}
		}
	}
	switch n := e.(type) {
	case *ast.ParenExpr:
		return x.expr(env, n.X)
	case *ast.BasicLit:
		switch n.Kind {
		case token.INT:
			v, err := strconv.ParseInt(n.Value, 0, 64)
			if err != nil {
				return Val{n.Value, tInt}
			}
			return Val{num(v), tInt}
		case token.STRING:
			s, _ := strconv.Unquote(n.Value)
			return Val{x.ctx.StrLit(s), tString}
		case token.CHAR:
			s, _, _, _ := strconv.UnquoteChar(n.Value[1:len(n.Value)-1], '\'')
			return Val{num(int64(s)), types.Typ[types.Rune]}
		}
		x.fail(n.Pos(), "unsupported literal %s", n.Value)
	case *ast.Ident:
		return x.ident(env, n)
	case *ast.UnaryExpr:
		return x.unary(env, n)
	case *ast.BinaryExpr:
		return x.binary(env, n)
	case *ast.SelectorExpr:
		return x.selector(env, n)
	case *ast.IndexExpr:
		return x.index(env, n)
	case *ast.SliceExpr:
		return x.sliceExpr(env, n)
	case *ast.StarExpr:
		p := x.expr(env, n.X)
		el, ok := ptrElem(p.Ty)
		if !ok {
			x.fail(n.Pos(), "deref of non-pointer")
		}
		x.nilCheck(env, n.Pos(), p)
		return x.loadCell(x.st, p.S, el, n.Pos())
	case *ast.CallExpr:
		rs := x.call(env, n)
		if len(rs) != 1 {
			x.fail(n.Pos(), "call used as single value returns %d values", len(rs))
		}
		return rs[0]
	case *ast.CompositeLit:
		return x.composite(env, n, x.typeOfOrDerive(env, n))
	case *ast.TypeAssertExpr:
		v := x.expr(env, n.X)
		t := x.resolveType(env, n.Type)
		if !env.spec {
			x.oblige(env, "typeassert", n.Pos(), eq("(itag "+v.S+")", fmt.Sprint(x.ctx.TypeTag(t))), "type assertion "+exprStr(n))
		}
		return x.fromIface(v, t)
	case *ast.FuncLit:
		x.fail(n.Pos(), "UNSUPPORTED: function literal as value")
	case *ast.KeyValueExpr:
		x.fail(n.Pos(), "unexpected key:value")
	}
	x.fail(e.Pos(), "UNSUPPORTED expression %T", e)
	return Val{}
}

func exprStr(e ast.Node) string {
	var b strings.Builder
	printNode(&b, e)
	return b.String()
}

func (x *Exec) typeOfOrDerive(env *evalEnv, e ast.Expr) types.Type {
	if t := x.typeOf(env, e); t != nil {
		return t
	}
	if cl, ok := e.(*ast.CompositeLit); ok && cl.Type != nil {
		return x.resolveType(env, cl.Type)
	}
	return nil
}

func (x *Exec) resolveType(env *evalEnv, e ast.Expr) types.Type {
	if t := x.typeOf(env, e); t != nil {
		return t
	}
	switch n := e.(type) {
	case *ast.Ident:
		o := x.lookupObj(env, n)
		if tn, ok := o.(*types.TypeName); ok {
			return tn.Type()
		}
		x.fail(n.Pos(), "BINDING: %s is not a type", n.Name)
	case *ast.StarExpr:
		return types.NewPointer(x.resolveType(env, n.X))
	case *ast.ArrayType:
		if n.Len == nil {
			return types.NewSlice(x.resolveType(env, n.Elt))
		}
	case *ast.MapType:
		return types.NewMap(x.resolveType(env, n.Key), x.resolveType(env, n.Value))
	case *ast.SelectorExpr:
		if id, ok := n.X.(*ast.Ident); ok {
			if pn, ok := x.lookupObj(env, id).(*types.PkgName); ok {
				if tn, ok := pn.Imported().Scope().Lookup(n.Sel.Name).(*types.TypeName); ok {
					return tn.Type()
				}
			}
		}
	case *ast.ParenExpr:
		return x.resolveType(env, n.X)
	case *ast.InterfaceType:
		return types.NewInterfaceType(nil, nil)
	}
	x.fail(e.Pos(), "cannot resolve type %s", exprStr(e))
	return nil
}

func (x *Exec) unary(env *evalEnv, n *ast.UnaryExpr) Val {
	switch n.Op {
	case token.NOT:
		v := x.expr(env, n.X)
		return Val{not(v.S), tBool}
	case token.SUB:
		v := x.expr(env, n.X)
		return Val{"(- " + v.S + ")", v.Ty}
	case token.ADD:
		return x.expr(env, n.X)
	case token.AND:
		return x.addrOf(env, n)
	case token.ARROW:
		v, _ := x.recv(env, n)
		return v
	}
	x.fail(n.Pos(), "UNSUPPORTED unary %s", n.Op)
	return Val{}
}

func (x *Exec) addrOf(env *evalEnv, n *ast.UnaryExpr) Val {
	inner := ast.Unparen(n.X)
	t := x.typeOfOrDerive(env, n)
	switch in := inner.(type) {
	case *ast.CompositeLit:
		ct := x.typeOfOrDerive(env, in)
		st, ok := structOf(ct)
		if !ok {
			x.fail(n.Pos(), "UNSUPPORTED &composite of non-struct")
		}
		v := x.composite(env, in, ct)
		ref := x.allocObj()
		x.storeStruct(ref, v, st)
		if t == nil {
			t = types.NewPointer(ct)
		}
		return Val{ref, t}
	case *ast.Ident:
		if o, ok := x.lookupObj(env, in).(*types.Var); ok && x.boxed[o] {
			if v, ok := x.st.vars[o]; ok {
				return Val{v.S, types.NewPointer(o.Type())}
			}
		}
		x.fail(n.Pos(), "UNSUPPORTED address of variable %s", in.Name)
	default:
		// &x[i], &x.f ... : snapshot copy into a fresh heap object (see DESIGN: interior pointers)
		v := x.expr(env, inner)
		if st, ok := structOf(v.Ty); ok {
			// pointer into the heap object itself? &p.f where f is struct-valued field
			ref := x.allocObj()
			x.storeStruct(ref, v, st)
			x.note("interior-pointer snapshot at " + posStr(x.v.fset, n.Pos()) + ": &" + exprStr(inner) + " modelled as a fresh object holding a copy")
			return Val{ref, types.NewPointer(v.Ty)}
		}
		// pointer to a non-struct location (&x.f, &s[i]): a fresh cell holding a copy; writes through it are not propagated back
		ref := x.allocObj()
		x.storeCell(ref, v, v.Ty)
		x.note("interior-pointer snapshot at " + posStr(x.v.fset, n.Pos()) + ": &" + exprStr(inner) + " modelled as a fresh cell holding a copy (writes through it are not seen through the original location)")
		return Val{ref, types.NewPointer(v.Ty)}
	}
	return Val{}
}

func (x *Exec) allocObj() string {
	ref := x.ctx.Fresh("new", "Int")
	x.st.assume(eq(ref, x.st.alloc))
	na := x.ctx.Fresh("alloc", "Int")
	x.st.assume(eq(na, "(+ "+x.st.alloc+" 1)"))
	x.st.alloc = na
	return ref
}

func (x *Exec) storeStruct(ref string, v Val, st *types.Struct) {
	srt := x.ctx.Sort(v.Ty)
	for i := 0; i < st.NumFields(); i++ {
		f := st.Field(i)
		h := x.heapOf(x.st, f)
		x.setHeap(f, fmt.Sprintf("(store %s %s (%s.%s %s))", h, ref, srt, sanitize(f.Name()), v.S))
	}
}

func (x *Exec) loadStruct(s *State, ref string, t types.Type, pos token.Pos) Val {
	st, ok := structOf(t)
	if !ok {
		x.fail(pos, "UNSUPPORTED deref of pointer to %s", t)
	}
	srt := x.ctx.Sort(t)
	if st.NumFields() == 0 {
		return Val{fmt.Sprintf("(mk_%s 0)", srt), t}
	}
	var parts []string
	for i := 0; i < st.NumFields(); i++ {
		f := st.Field(i)
		parts = append(parts, fmt.Sprintf("(select %s %s)", x.heapOf(s, f), ref))
	}
	return Val{fmt.Sprintf("(mk_%s %s)", srt, strings.Join(parts, " ")), t}
}

func (x *Exec) nilCheck(env *evalEnv, pos token.Pos, p Val) {
	if env.spec {
		return
	}
	x.oblige(env, "nil", pos, not(eq(p.S, "0")), "non-nil dereference")
}

func (x *Exec) binary(env *evalEnv, n *ast.BinaryExpr) Val {
	switch n.Op {
	case token.LAND, token.LOR:
		a := x.expr(env, n.X)
		if x.inSpec > 0 || env.spec {
			b := x.expr(env, n.Y)
			if n.Op == token.LAND {
				return Val{and(a.S, b.S), tBool}
			}
			return Val{or(a.S, b.S), tBool}
		}
		if hasCall(n.Y) {
			// the right operand has effects: it is evaluated only on the branch where the left operand does not decide
			base := x.st
			sA := base.clone()
			sB := base.clone()
			if n.Op == token.LAND {
				sA.assume(a.S)
				sB.assume(not(a.S))
			} else {
				sA.assume(not(a.S))
				sB.assume(a.S)
			}
			x.st = sA
			b := x.expr(env, n.Y)
			sA = x.st
			x.st = x.merge(sA, sB)
			if n.Op == token.LAND {
				return Val{and(a.S, b.S), tBool}
			}
			return Val{or(a.S, b.S), tBool}
		}
		// short circuit: evaluate b under assumption
		saved := len(x.st.pc)
		if n.Op == token.LAND {
			x.st.assume(a.S)
		} else {
			x.st.assume(not(a.S))
		}
		guardLen := len(x.st.pc)
		b := x.expr(env, n.Y)
		// facts added while evaluating b stay but guarded
		x.st.pc = reguard(x.st.pc, saved, guardLen)
		if n.Op == token.LAND {
			return Val{and(a.S, b.S), tBool}
		}
		return Val{or(a.S, b.S), tBool}
	}
	a := x.expr(env, n.X)
	b := x.expr(env, n.Y)
	rt := x.typeOf(env, n)
	if rt == nil {
		rt = a.Ty
		if isNilType(rt) || (isUntyped(rt) && !isUntyped(b.Ty)) {
			rt = b.Ty
		}
	}
	switch n.Op {
	case token.EQL:
		return Val{x.eqVals(a, b), tBool}
	case token.NEQ:
		return Val{not(x.eqVals(a, b)), tBool}
	case token.LSS:
		return Val{"(< " + a.S + " " + b.S + ")", tBool}
	case token.LEQ:
		return Val{"(<= " + a.S + " " + b.S + ")", tBool}
	case token.GTR:
		return Val{"(> " + a.S + " " + b.S + ")", tBool}
	case token.GEQ:
		return Val{"(>= " + a.S + " " + b.S + ")", tBool}
	case token.ADD:
		if isString(a.Ty) || isString(b.Ty) {
			return Val{"(str_concat " + a.S + " " + b.S + ")", tString}
		}
		return Val{"(+ " + a.S + " " + b.S + ")", rt}
	case token.SUB:
		return Val{"(- " + a.S + " " + b.S + ")", rt}
	case token.MUL:
		return Val{"(* " + a.S + " " + b.S + ")", rt}
	case token.QUO:
		if !env.spec {
			x.oblige(env, "divzero", n.Pos(), not(eq(b.S, "0")), "division by zero")
		}
		return Val{"(godiv " + a.S + " " + b.S + ")", rt}
	case token.REM:
		if !env.spec {
			x.oblige(env, "divzero", n.Pos(), not(eq(b.S, "0")), "division by zero")
		}
		return Val{"(gomod " + a.S + " " + b.S + ")", rt}
	case token.AND, token.OR, token.AND_NOT, token.SHL, token.SHR, token.XOR:
		return x.bitop(env, n, a, b, rt)
	}
	x.fail(n.Pos(), "UNSUPPORTED binary %s", n.Op)
	return Val{}
}

func isUntyped(t types.Type) bool {
	b, ok := t.(*types.Basic)
	return ok && b.Info()&types.IsUntyped != 0
}

// reguard rewrites facts pc[guardLen:] as (guard => fact) and drops the guard itself
func reguard(pc []string, saved, guardLen int) []string {
	if guardLen == saved { // guard was trivially true
		return pc
	}
	guard := pc[saved]
	out := append([]string(nil), pc[:saved]...)
	for _, f := range pc[guardLen:] {
		out = append(out, implies(guard, f))
	}
	return out
}

const two32 = "4294967296"

func (x *Exec) bitop(env *evalEnv, n *ast.BinaryExpr, a, b Val, rt types.Type) Val {
	isC := func(v Val, c string) bool { return v.S == c }
	maskAll := "18446744069414584319" // ^(1<<32) on 64-bit uint
	switch n.Op {
	case token.AND:
		if isC(b, two32) {
			return Val{"(ite (bit32 " + a.S + ") " + two32 + " 0)", rt}
		}
		if isC(a, two32) {
			return Val{"(ite (bit32 " + b.S + ") " + two32 + " 0)", rt}
		}
		if isC(b, maskAll) {
			return Val{"(low32 " + a.S + ")", rt}
		}
		if isC(a, maskAll) {
			return Val{"(low32 " + b.S + ")", rt}
		}
	case token.OR:
		if isC(b, two32) {
			return Val{"(set32 " + a.S + ")", rt}
		}
		if isC(a, two32) {
			return Val{"(set32 " + b.S + ")", rt}
		}
	}
	fn := map[token.Token]string{token.AND: "bitand", token.OR: "bitor", token.AND_NOT: "bitandnot", token.SHL: "bitshl", token.SHR: "bitshr", token.XOR: "bitxor"}[n.Op]
	x.ctx.decl("fun:"+fn, fmt.Sprintf("(declare-fun %s (Int Int) Int)", fn))
	x.note("bit operation " + exprStr(n) + " treated as uninterpreted")
	return Val{"(" + fn + " " + a.S + " " + b.S + ")", rt}
}

// ---------- selectors ----------

func (x *Exec) fieldPath(env *evalEnv, n *ast.SelectorExpr, recv types.Type) ([]int, types.Object) {
	if env.info != nil {
		if sel, ok := env.info.Selections[n]; ok {
			return sel.Index(), sel.Obj()
		}
	}
	pkg := env.pkg
	obj, idx, _ := types.LookupFieldOrMethod(recv, true, pkg, n.Sel.Name)
	if obj == nil {
		// unexported field of another package: search with that package
		if nt := namedOf(recv); nt != nil && nt.Obj().Pkg() != nil {
			obj, idx, _ = types.LookupFieldOrMethod(recv, true, nt.Obj().Pkg(), n.Sel.Name)
		}
	}
	if obj == nil {
		x.fail(n.Pos(), "BINDING: no field or method %s in %s", n.Sel.Name, recv)
	}
	return idx, obj
}

func namedOf(t types.Type) *types.Named {
	for {
		switch u := t.(type) {
		case *types.Named:
			return u
		case *types.Pointer:
			t = u.Elem()
		case *types.Alias:
			t = types.Unalias(u)
		default:
			return nil
		}
	}
}

func (x *Exec) selector(env *evalEnv, n *ast.SelectorExpr) Val {
	// qualified identifier?
	if id, ok := n.X.(*ast.Ident); ok {
		if _, isBound := env.bound[id.Name]; !isBound {
			if pn, ok := x.lookupObj(env, id).(*types.PkgName); ok {
				o := pn.Imported().Scope().Lookup(n.Sel.Name)
				switch ob := o.(type) {
				case *types.Const:
					if v, ok := x.constVal(ob.Val(), ob.Type()); ok {
						return v
					}
				case *types.Var:
					return x.globalVal(x.st, ob)
				case *types.Func:
					return Val{fmt.Sprintf("%d", x.funcTag(ob)), ob.Type()}
				}
				x.fail(n.Pos(), "BINDING: unsupported qualified identifier %s.%s", id.Name, n.Sel.Name)
			}
		}
	}
	base := x.expr(env, n.X)
	idx, obj := x.fieldPath(env, n, base.Ty)
	if _, isFunc := obj.(*types.Func); isFunc {
		x.fail(n.Pos(), "UNSUPPORTED method value %s", n.Sel.Name)
	}
	return x.walkFields(env, n.Pos(), base, idx)
}

func (x *Exec) walkFields(env *evalEnv, pos token.Pos, cur Val, idx []int) Val {
	for _, i := range idx {
		if el, ok := ptrElem(cur.Ty); ok {
			st, ok := structOf(el)
			if !ok {
				x.fail(pos, "field of pointer to non-struct")
			}
			x.nilCheck(env, pos, cur)
			f := st.Field(i)
			cur = Val{fmt.Sprintf("(select %s %s)", x.heapOf(x.st, f), cur.S), f.Type()}
		} else {
			st, ok := structOf(cur.Ty)
			if !ok {
				x.fail(pos, "field of non-struct %s", cur.Ty)
			}
			f := st.Field(i)
			srt := x.ctx.Sort(cur.Ty)
			cur = Val{fmt.Sprintf("(%s.%s %s)", srt, sanitize(f.Name()), cur.S), f.Type()}
		}
		x.readFacts(cur)
	}
	return cur
}

// readFacts adds cheap type invariants for freshly read values
func (x *Exec) readFacts(v Val) {
	if x.inSpec > 0 || len(v.S) > 400 {
		return
	}
	switch v.Ty.Underlying().(type) {
	case *types.Slice:
		x.st.assume("(>= " + x.ctx.slLen(v) + " 0)")
	case *types.Pointer:
		x.st.assume("(and (<= 0 " + v.S + ") (< " + v.S + " " + x.st.alloc + "))")
	case *types.Basic:
		if isUnsigned(v.Ty) {
			x.st.assume("(>= " + v.S + " 0)")
		}
	}
}

// ---------- index / slice ----------

func (x *Exec) index(env *evalEnv, n *ast.IndexExpr) Val {
	base := x.expr(env, n.X)
	switch u := base.Ty.Underlying().(type) {
	case *types.Slice:
		i := x.expr(env, n.Index)
		if !env.spec {
			x.oblige(env, "bounds", n.Pos(), and("(<= 0 "+i.S+")", "(< "+i.S+" "+x.ctx.slLen(base)+")"), "index in range: "+exprStr(n))
		}
		v := Val{fmt.Sprintf("(select %s %s)", x.ctx.slArr(base), i.S), u.Elem()}
		x.readFacts(v)
		return v
	case *types.Array:
		i := x.expr(env, n.Index)
		if !env.spec {
			x.oblige(env, "bounds", n.Pos(), and("(<= 0 "+i.S+")", fmt.Sprintf("(< %s %d)", i.S, u.Len())), "index in range: "+exprStr(n))
		}
		v := Val{fmt.Sprintf("(select %s %s)", base.S, i.S), u.Elem()}
		x.readFacts(v)
		return v
	case *types.Map:
		k := x.expr(env, n.Index)
		k = x.convertTo(k, u.Key())
		v := Val{ite(fmt.Sprintf("(select %s %s)", x.ctx.mpDom(base), k.S), fmt.Sprintf("(select %s %s)", x.ctx.mpVal(base), k.S), x.ctx.Zero(u.Elem())), u.Elem()}
		x.readFacts(v)
		return v
	case *types.Basic:
		if isString(base.Ty) {
			i := x.expr(env, n.Index)
			if !env.spec {
				x.oblige(env, "bounds", n.Pos(), and("(<= 0 "+i.S+")", "(< "+i.S+" (strlen "+base.S+"))"), "string index in range: "+exprStr(n))
			}
			return Val{"(byteAt " + base.S + " " + i.S + ")", types.Typ[types.Byte]}
		}
	case *types.Pointer:
		if at, ok := u.Elem().Underlying().(*types.Array); ok {
			_ = at
		}
	}
	x.fail(n.Pos(), "UNSUPPORTED index on %s", base.Ty)
	return Val{}
}

func (x *Exec) mapHas(m Val, k Val) string {
	return fmt.Sprintf("(select %s %s)", x.ctx.mpDom(m), k.S)
}

func (x *Exec) sliceExpr(env *evalEnv, n *ast.SliceExpr) Val {
	base := x.expr(env, n.X)
	var lo, hi string = "0", ""
	if n.Low != nil {
		lo = x.expr(env, n.Low).S
	}
	if isString(base.Ty) {
		hi = "(strlen " + base.S + ")"
		if n.High != nil {
			hi = x.expr(env, n.High).S
		}
		if !env.spec {
			x.oblige(env, "bounds", n.Pos(), and("(<= 0 "+lo+")", "(<= "+lo+" "+hi+")", "(<= "+hi+" (strlen "+base.S+"))"), "slice bounds: "+exprStr(n))
		}
		r := Val{"(substr " + base.S + " " + lo + " " + hi + ")", base.Ty}
		if x.inSpec == 0 {
			x.st.assume(eq("(strlen "+r.S+")", "(- "+hi+" "+lo+")"))
		}
		return r
	}
	sl, ok := base.Ty.Underlying().(*types.Slice)
	if !ok {
		x.fail(n.Pos(), "UNSUPPORTED slice expression on %s", base.Ty)
	}
	hi = x.ctx.slLen(base)
	if n.High != nil {
		hi = x.expr(env, n.High).S
	}
	if !env.spec {
		// capacity is not modelled: upper bound checked against len (stricter than Go's cap)
		x.oblige(env, "bounds", n.Pos(), and("(<= 0 "+lo+")", "(<= "+lo+" "+hi+")", "(<= "+hi+" "+x.ctx.slLen(base)+")"), "slice bounds: "+exprStr(n))
	}
	if lo == "0" {
		return Val{x.ctx.mkSlice(base.Ty, x.ctx.slArr(base), hi, "false", x.ctx.slBid(base)), base.Ty}
	}
	if x.inSpec > 0 {
		x.fail(n.Pos(), "UNSUPPORTED reslice with non-zero low bound inside a spec expression")
	}
	es := x.ctx.Sort(sl.Elem())
	arr := x.ctx.Fresh("resl", fmt.Sprintf("(Array Int %s)", es))
	x.st.assume(fmt.Sprintf("(forall ((i Int)) (! (= (select %s i) (select %s (+ i %s))) :pattern ((select %s i))))", arr, x.ctx.slArr(base), lo, arr))
	x.st.assume(fmt.Sprintf("(forall ((j Int)) (! (= (select %s (- j %s)) (select %s j)) :pattern ((select %s j))))", arr, lo, x.ctx.slArr(base), x.ctx.slArr(base)))
	return Val{x.ctx.mkSlice(base.Ty, arr, "(- "+hi+" "+lo+")", "false", x.ctx.slBid(base)), base.Ty}
}

// ---------- composite literals ----------

func (x *Exec) composite(env *evalEnv, n *ast.CompositeLit, t types.Type) Val {
	if t == nil {
		x.fail(n.Pos(), "composite literal of unknown type")
	}
	switch u := t.Underlying().(type) {
	case *types.Struct:
		vals := make([]string, u.NumFields())
		for i := range vals {
			vals[i] = x.ctx.Zero(u.Field(i).Type())
		}
		for i, el := range n.Elts {
			if kv, ok := el.(*ast.KeyValueExpr); ok {
				name := kv.Key.(*ast.Ident).Name
				found := false
				for j := 0; j < u.NumFields(); j++ {
					if u.Field(j).Name() == name {
						v := x.exprAs(env, kv.Value, u.Field(j).Type())
						vals[j] = v.S
						found = true
					}
				}
				if !found {
					x.fail(kv.Pos(), "BINDING: no field %s", name)
				}
			} else {
				v := x.exprAs(env, el, u.Field(i).Type())
				vals[i] = v.S
			}
		}
		srt := x.ctx.Sort(t)
		if len(vals) == 0 {
			return Val{fmt.Sprintf("(mk_%s 0)", srt), t}
		}
		return Val{fmt.Sprintf("(mk_%s %s)", srt, strings.Join(vals, " ")), t}
	case *types.Slice:
		arr := x.ctx.constArr("Int", x.ctx.Sort(u.Elem()), x.ctx.Zero(u.Elem()))
		for i, el := range n.Elts {
			if _, ok := el.(*ast.KeyValueExpr); ok {
				x.fail(el.Pos(), "UNSUPPORTED keyed slice literal")
			}
			v := x.exprAs(env, el, u.Elem())
			arr = fmt.Sprintf("(store %s %d %s)", arr, i, v.S)
		}
		return Val{x.ctx.mkSlice(t, arr, fmt.Sprint(len(n.Elts)), "false", x.freshBid()), t}
	case *types.Map:
		m := Val{x.ctx.Zero(t), t}
		for _, el := range n.Elts {
			kv := el.(*ast.KeyValueExpr)
			k := x.exprAs(env, kv.Key, u.Key())
			v := x.exprAs(env, kv.Value, u.Elem())
			m = x.mapStore(m, k, v)
		}
		return m
	}
	x.fail(n.Pos(), "UNSUPPORTED composite literal of %s", t)
	return Val{}
}

// exprAs evaluates e (possibly an untyped composite element) and converts to t
func (x *Exec) exprAs(env *evalEnv, e ast.Expr, t types.Type) Val {
	if cl, ok := e.(*ast.CompositeLit); ok && cl.Type == nil {
		if pt, ok := ptrElem(t); ok {
			v := x.composite(env, cl, pt)
			st, _ := structOf(pt)
			ref := x.allocObj()
			x.storeStruct(ref, v, st)
			return Val{ref, t}
		}
		return x.composite(env, cl, t)
	}
	return x.convertTo(x.expr(env, e), t)
}

func (x *Exec) mapStore(m Val, k, v Val) Val {
	return Val{x.ctx.mkMap(m.Ty, fmt.Sprintf("(store %s %s true)", x.ctx.mpDom(m), k.S), fmt.Sprintf("(store %s %s %s)", x.ctx.mpVal(m), k.S, v.S)), m.Ty}
}

// cells: storage for address-taken locals and pointers to non-struct values
func (x *Exec) cellField(t types.Type) *types.Var {
	k := x.ctx.Sort(t)
	if f, ok := x.v.cells[k]; ok {
		return f
	}
	f := types.NewField(token.NoPos, nil, "cell_"+mangle(k), t, false)
	x.v.cells[k] = f
	x.v.fieldOwner[f] = "cell"
	return f
}

func (x *Exec) loadCell(s *State, ref string, t types.Type, pos token.Pos) Val {
	if _, ok := structOf(t); ok {
		return x.loadStruct(s, ref, t, pos)
	}
	f := x.cellField(t)
	return Val{fmt.Sprintf("(select %s %s)", x.heapOf(s, f), ref), t}
}

func (x *Exec) storeCell(ref string, v Val, t types.Type) {
	if st, ok := structOf(t); ok {
		x.storeStruct(ref, Val{v.S, t}, st)
		return
	}
	f := x.cellField(t)
	x.setHeap(f, fmt.Sprintf("(store %s %s %s)", x.heapOf(x.st, f), ref, v.S))
}

// recv models a channel receive under assumption A-seq (one sender, one receiver, unbuffered channel):
// the k-th receive yields spec_recv(k) with ok == spec_recvOK(k); a closed channel yields the zero value.
// The ghost counter "fetched" counts receives.
func (x *Exec) recv(env *evalEnv, n *ast.UnaryExpr) (Val, Val) {
	ct, ok := x.typeOf(env, n.X).Underlying().(*types.Chan)
	if !ok {
		x.fail(n.Pos(), "receive from non-channel")
	}
	x.expr(env, n.X)
	g, ok := x.st.ghost["fetched"]
	if !ok {
		x.fail(n.Pos(), "UNSUPPORTED channel receive (no ghostvar fetched declared for this package)")
	}
	es := x.ctx.Sort(ct.Elem())
	x.ctx.decl("fun:sf_spec_recv", fmt.Sprintf("(declare-fun sf_spec_recv (Int) %s)", es))
	x.ctx.decl("fun:sf_spec_recvOK", "(declare-fun sf_spec_recvOK (Int) Bool)")
	okT := "(sf_spec_recvOK " + g.S + ")"
	v := Val{ite(okT, "(sf_spec_recv "+g.S+")", x.ctx.Zero(ct.Elem())), ct.Elem()}
	x.st.ghost["fetched"] = Val{"(+ " + g.S + " 1)", tInt}
	x.trustedUsed["A-seq: unbuffered channel with one sender and one receiver delivers the k-th send to the k-th receive; a closed channel yields the zero value"] = true
	return v, Val{okT, tBool}
}

// innermostScope: the innermost scope of the function whose extent contains pos (own walk: Scope.Innermost returns nil
// for function scopes whose recorded extent does not include the position)
func innermostScope(sc *types.Scope, pos token.Pos) *types.Scope {
	for {
		found := false
		for i := 0; i < sc.NumChildren(); i++ {
			c := sc.Child(i)
			if c.Pos() <= pos && pos < c.End() {
				sc = c
				found = true
				break
			}
		}
		if !found {
			return sc
		}
	}
}

func hasCall(e ast.Expr) bool {
	found := false
	ast.Inspect(e, func(n ast.Node) bool {
		if c, ok := n.(*ast.CallExpr); ok {
			if id, ok := c.Fun.(*ast.Ident); ok {
				switch id.Name {
				case "len", "cap", "int", "uint", "string":
					return true
				}
			}
			found = true
		}
		return !found
	})
	return found
}
