package main

import (
	"encoding/json"
	"os/exec"
	"fmt"
	"os"
	"path/filepath"
	"sort"
	"strings"
)

type Report struct {
	Prop, Tier                string
	Seed                      int
	Results                   []*FuncResult
	Obls                      []*Obligation
	LoadS, GenS, SolveS, Wall float64
	V                         *Verifier
	ReplayDir                 string
	HarnessDir                string
	Repo                      string
	Baseline                  map[string]string
	Known                     []knownFinding
	Bounded                   []map[string]interface{}
	ExtraAssumptions          []string
	StandinViolations         []string
}

type knownFinding struct {
	Kind, Prop, Obligation, Rest string
}

func loadKnown(path string) []knownFinding {
	b, err := os.ReadFile(path)
	if err != nil {
		return nil
	}
	var out []knownFinding
	for _, ln := range strings.Split(string(b), "\n") {
		ln = strings.TrimSpace(ln)
		if ln == "" || strings.HasPrefix(ln, "#") {
			continue
		}
		kf := knownFinding{}
		if strings.HasPrefix(ln, "finding:") {
			kf.Kind = "finding"
			ln = strings.TrimSpace(ln[8:])
		} else if strings.HasPrefix(ln, "fixed:") {
			kf.Kind = "fixed"
			ln = strings.TrimSpace(ln[6:])
		} else {
			continue
		}
		for _, f := range strings.Fields(ln) {
			if strings.HasPrefix(f, "property=") {
				kf.Prop = f[9:]
			}
			if strings.HasPrefix(f, "obligation=") {
				kf.Obligation = f[11:]
			}
		}
		kf.Rest = ln
		out = append(out, kf)
	}
	return out
}

func loadBaseline(path string) map[string]string {
	m := map[string]string{}
	b, err := os.ReadFile(path)
	if err != nil {
		return m
	}
	json.Unmarshal(b, &m)
	return m
}

func (r *Report) finish(evidPath string, verbose bool) int {
	code := 0
	nProved, nFailed, nUnknown, nKnown := 0, 0, 0, 0
	violations := 0
	var lines []string
	say := func(format string, a ...interface{}) {
		s := fmt.Sprintf(format, a...)
		lines = append(lines, s)
		fmt.Println(s)
	}
	bindingErr := false
	var bindingViol []*FuncResult
	for _, fr := range r.Results {
		if fr.Err != "" {
			// the contract of this function bound to the code and was proved when the baseline was accepted; now it
			// no longer binds (or the function is outside the supported subset): its obligations cannot be
			// established any more - reported as a violation of that function's contract, not as a pass
			wasProved := 0
			for name, st := range r.Baseline {
				if st == "proved" && strings.HasPrefix(name, fr.Unit+"/") {
					wasProved++
				}
			}
			if wasProved > 0 {
				say("  FAILED  %s: the contract no longer binds to the code (%d obligations of this function were proved in the accepted baseline): %s", fr.Unit, wasProved, fr.Err)
				bindingViol = append(bindingViol, fr)
				continue
			}
			say("UNDECIDED-BINDING %s: %s", fr.Unit, fr.Err)
			bindingErr = true
		}
	}
	isKnown := func(o *Obligation) *knownFinding {
		for i := range r.Known {
			k := &r.Known[i]
			if k.Kind == "finding" && k.Obligation == o.Name && (k.Prop == r.Prop || r.Prop == "") {
				return k
			}
		}
		return nil
	}
	var samples []map[string]interface{}
	solverTime := 0.0
	bySolver := map[string]int{}
	for _, o := range sortedObls(r.Obls) {
		solverTime += o.Time
		switch o.Status {
		case "proved":
			nProved++
			bySolver[o.Solver]++
			if verbose {
				say("  ok      %-72s %s %.2fs", o.Name, o.Solver, o.Time)
			}
		default:
			if k := isKnown(o); k != nil {
				nKnown++
				say("KNOWN-FINDING: property=%s %s", r.Prop, k.Rest)
				continue
			}
			inBase := r.Baseline[o.Name] == "proved"
			var pre *replayResult
			if o.Status == "unknown" && !inBase {
				// bounded search with the function's run-time contract before calling it undecided
				pre = r.tryReplay(o)
			}
			if o.Status == "unknown" && !inBase && (pre == nil || !pre.reproduced) {
				nUnknown++
				say("UNDECIDED %s: %s (%s) solvers=%v — not in the accepted baseline, not reported as a violation", o.Name, trunc(o.Src, 120), o.Pos, o.Answers)
				continue
			}
			nFailed++
			violations++
			path, found := r.replay(o)
			suffix := ""
			if !found {
				suffix = " no-failing-input-found"
			}
			say("  FAILED  %-72s [%s] %s (%s) solvers=%v", o.Name, o.Status, trunc(o.Src, 140), o.Pos, o.Answers)
			say("VIOLATION property=%s replay=%s obligation=%s%s", r.Prop, path, o.Name, suffix)
			code = 1
		}
	}
	// baseline obligations that disappeared
	missing := 0
	if !bindingErr {
		have := map[string]bool{}
		for _, o := range r.Obls {
			have[o.Name] = true
		}
		for name := range r.Baseline {
			if !have[name] {
				missing++
				if verbose {
					say("note: baseline obligation %s not generated in this run (code changed shape)", name)
				}
			}
		}
	}
	for i, o := range sortedObls(r.Obls) {
		if i%max(1, len(r.Obls)/12) == 0 && len(samples) < 14 {
			samples = append(samples, map[string]interface{}{"obligation": o.Name, "kind": o.Kind, "clause": trunc(o.Src, 200), "status": o.Status, "solver": o.Solver, "time_s": round3(o.Time), "query_bytes": o.Size})
		}
	}
	for _, fr := range bindingViol {
		o := &Obligation{Func: fr.Unit, Name: fr.Unit + "/binding", Kind: "binding", Src: fr.Err, Status: "unknown", Answers: map[string]string{"govc": "contract does not bind: " + fr.Err}}
		path, found := r.replay(o)
		suffix := ""
		if !found {
			suffix = " no-failing-input-found"
		}
		say("VIOLATION property=%s replay=%s obligation=%s%s", r.Prop, path, o.Name, suffix)
		violations++
		code = 1
	}
	for _, sv := range r.StandinViolations {
		dir := filepath.Join(r.ReplayDir, r.Prop)
		os.MkdirAll(dir, 0o755)
		path := filepath.Join(dir, "bounded_standin.json")
		b, _ := json.MarshalIndent(map[string]interface{}{"property": r.Prop, "obligation": "bounded stand-in", "failing_input": sv, "failing_input_reproduced_on_real_code": true}, "", " ")
		os.WriteFile(path, b, 0o644)
		say("  FAILED  bounded stand-in: %s", trunc(sv, 300))
		say("VIOLATION property=%s replay=%s obligation=bounded-standin", r.Prop, path)
		violations++
		code = 1
	}
	say("property=%s tier=%s obligations=%d proved=%d failed=%d undecided=%d known=%d  load=%.1fs gen=%.1fs solve=%.1fs", r.Prop, r.Tier, len(r.Obls), nProved, nFailed, nUnknown, nKnown, r.LoadS, r.GenS, r.SolveS)
	if bindingErr && code == 0 {
		code = 3
	}
	if evidPath != "" {
		r.writeEvidence(evidPath, nProved, violations, samples, solverTime, bySolver, nUnknown, nKnown, missing)
	}
	return code
}

func round3(f float64) float64 { return float64(int(f*1000+0.5)) / 1000 }

func (r *Report) writeEvidence(path string, nProved, violations int, samples []map[string]interface{}, solverTime float64, bySolver map[string]int, nUnknown, nKnown, missing int) {
	var funcs []map[string]interface{}
	trusted := map[string]bool{}
	var unmodelled []string
	var notes []string
	for _, fr := range r.Results {
		m := map[string]interface{}{"function": fr.Unit, "obligations": len(fr.Obls)}
		if fr.Contract != nil {
			m["contract"] = fmt.Sprintf("%s:%d", fr.Contract.File, fr.Contract.Line)
			m["loops"] = fr.Loops
			if len(fr.LoopsNoInv) > 0 {
				m["loops_without_invariant"] = fr.LoopsNoInv
			}
		}
		if fr.Err != "" {
			m["error"] = fr.Err
		}
		funcs = append(funcs, m)
		for _, t := range fr.Trusted {
			trusted[t] = true
		}
		unmodelled = append(unmodelled, fr.Unmodelled...)
		for _, n := range fr.Notes {
			notes = append(notes, fr.Unit+": "+n)
		}
	}
	tb := []string{
		"govc itself (VC generator over go/ast+go/types; value model for slices and maps under the no-aliasing discipline; heap per field)",
		"SMT solvers z3 4.8.12, z3 5.1.0 (z3-new), cvc5 1.0.3 raced per obligation; go/types; golang.org/x/tools/go/packages v0.29.0",
		"machine integers treated as mathematical integers (no overflow reasoning)",
		"strings are an uninterpreted sort (equality, length, literals distinct)",
		"a nil map and an empty map are the same value in the model: a write to a nil map (a run-time panic in Go) is not an obligation",
	}
	for _, t := range sortedKeys(trusted) {
		tb = append(tb, "assumed: "+t)
	}
	unmodelled = uniq(unmodelled)
	notes = uniq(notes)
	assumptions := append([]string{}, r.ExtraAssumptions...)
	for _, u := range unmodelled {
		assumptions = append(assumptions, "unmodelled: "+u)
	}
	for _, n := range notes {
		assumptions = append(assumptions, "note: "+n)
	}
	if len(assumptions) == 0 {
		assumptions = []string{"none beyond the trusted base"}
	}
	if samples == nil {
		samples = []map[string]interface{}{}
	}
	ev := map[string]interface{}{
		"property_id": r.Prop,
		"tier":        r.Tier,
		"seed":        r.Seed,
		"level":       "proof",
		"coverage": map[string]interface{}{
			"obligations":              len(r.Obls),
			"discharged":               nProved,
			"undecided_new":            nUnknown,
			"known_findings":           nKnown,
			"baseline_obligations_absent": missing,
			"checker_cmd":              fmt.Sprintf("/verif/check %s %s", r.Prop, r.Tier),
			"trusted_base":             tb,
			"samples":                  samples,
			"functions_under_contract": funcs,
			"bounded_standins":         r.Bounded,
			"unmodelled_calls":         unmodelled,
			"solver_time_s":            round3(solverTime),
			"discharged_by_backend":    bySolver,
			"phase_s":                  map[string]float64{"load": round3(r.LoadS), "vcgen": round3(r.GenS), "solve": round3(r.SolveS)},
		},
		"assumptions": assumptions,
		"wall_s":      round3(r.Wall),
		"violations":  violations,
	}
	b, _ := json.MarshalIndent(ev, "", " ")
	os.MkdirAll(filepath.Dir(path), 0o755)
	os.WriteFile(path, b, 0o644)
}

func uniq(xs []string) []string {
	m := map[string]bool{}
	var out []string
	for _, x := range xs {
		if !m[x] {
			m[x] = true
			out = append(out, x)
		}
	}
	sort.Strings(out)
	return out
}

// replay writes a replay file for a failed obligation; returns its path and whether a failing input was reproduced on the real code
func (r *Report) replay(o *Obligation) (string, bool) {
	dir := filepath.Join(r.ReplayDir, r.Prop)
	os.MkdirAll(dir, 0o755)
	path := filepath.Join(dir, sanitize(strings.ReplaceAll(o.Name, "/", "__"))+".json")
	rec := map[string]interface{}{
		"property":   r.Prop,
		"obligation": o.Name,
		"kind":       o.Kind,
		"clause":     o.Src,
		"position":   o.Pos,
		"status":     o.Status,
		"solvers":    o.Answers,
		"solver_output": trunc(o.Output, 4000),
	}
	found := false
	if rp := r.tryReplay(o); rp != nil {
		for k, v := range rp.rec {
			rec[k] = v
		}
		found = rp.reproduced
	}
	rec["failing_input_reproduced_on_real_code"] = found
	b, _ := json.MarshalIndent(rec, "", " ")
	os.WriteFile(path, b, 0o644)
	return path, found
}

// runStandin runs a run-time contract harness as a BOUNDED stand-in (reported separately, never counted as proved)
func (r *Report) runStandin(harness string, pkgDir string) {
	src, err := os.ReadFile(harness)
	if err != nil {
		r.StandinViolations = append(r.StandinViolations, "stand-in harness missing: "+harness)
		return
	}
	// header comment = description of the bound
	desc := ""
	for _, ln := range strings.Split(string(src), "\n") {
		if strings.HasPrefix(ln, "// ") {
			desc += strings.TrimPrefix(ln, "// ") + " "
		} else if strings.HasPrefix(ln, "import") {
			break
		}
	}
	tmp, _ := os.MkdirTemp("", "govc-standin")
	defer os.RemoveAll(tmp)
	tf := filepath.Join(tmp, "t_test.go")
	os.WriteFile(tf, src, 0o644)
	ov, _ := json.Marshal(map[string]interface{}{"Replace": map[string]string{filepath.Join(pkgDir, "zz_govc_standin_test.go"): tf}})
	of := filepath.Join(tmp, "ov.json")
	os.WriteFile(of, ov, 0o644)
	n := "400"
	if r.Tier == "thorough" {
		n = "20000"
	}
	cmd := exec.Command("go", "test", "-tags", "verif", "-overlay", of, "-vet=off", "-count=1", "-timeout", "900s", "-run", "^TestGovcHarness$", "-v", ".")
	cmd.Dir = pkgDir
	cmd.Env = append(os.Environ(), "GOFLAGS=-mod=mod", "GOPROXY=off", "GOSUMDB=off", "GOTOOLCHAIN=local", "GOVC_HARNESS_N="+n, fmt.Sprintf("VERIF_SEED=%d", r.Seed+1))
	out, _ := cmd.CombinedOutput()
	res := "no result line"
	for _, ln := range strings.Split(string(out), "\n") {
		if strings.HasPrefix(ln, "FAILING-INPUT:") {
			r.StandinViolations = append(r.StandinViolations, strings.TrimSpace(ln[len("FAILING-INPUT:"):]))
			res = ln
		}
		if strings.HasPrefix(ln, "HARNESS-OK") {
			res = ln
		}
	}
	if res == "no result line" {
		r.StandinViolations = append(r.StandinViolations, "stand-in did not run: "+trunc(string(out), 400))
	}
	r.Bounded = append(r.Bounded, map[string]interface{}{"harness": harness, "package": pkgDir, "bound": strings.TrimSpace(desc), "result": res, "level": "bounded (run-time evaluation of the contract on the real functions; not counted as proved)"})
	fmt.Println("bounded stand-in:", filepath.Base(harness), "->", res)
}
