package main

import (
	"bytes"
	"regexp"
	"context"
	"fmt"
	"os"
	"os/exec"
	"path/filepath"
	"strings"
	"sync"
	"time"
)

type solverSpec struct {
	name string
	args func(file string, timeoutS int) []string
}

var solvers = []solverSpec{
	{"z3-new", func(f string, t int) []string { return []string{"z3-new", fmt.Sprintf("-T:%d", t), f} }},
	{"z3", func(f string, t int) []string { return []string{"z3", fmt.Sprintf("-T:%d", t), f} }},
	{"cvc5", func(f string, t int) []string {
		return []string{"cvc5", "--incremental", fmt.Sprintf("--tlimit=%d", t*1000), f}
	}},
}

func buildQuery(ctx *Ctx, o *Obligation, withValues bool) string {
	var b strings.Builder
	b.WriteString("(set-option :produce-models true)\n(set-logic ALL)\n")
	for _, d := range ctx.decls {
		b.WriteString(d)
		b.WriteString("\n")
	}
	var body strings.Builder
	for _, p := range o.PC {
		body.WriteString("(assert " + p + ")\n")
	}
	body.WriteString("(assert (not " + o.Goal + "))\n")
	bs := body.String()
	for _, a := range ctx.axioms {
		for _, sym := range a.syms {
			if strings.Contains(bs, sym) {
				b.WriteString("(assert " + a.text + ")\n")
				break
			}
		}
	}
	if strings.Contains(bs, "strlit!") {
		for _, a := range ctx.strFacts() {
			b.WriteString("(assert " + a + ")\n")
		}
	}
	b.WriteString(bs)
	b.WriteString("(check-sat)\n")
	if withValues && len(o.Observe) > 0 {
		var ts []string
		for _, t := range o.Observe {
			ts = append(ts, t.Term)
		}
		b.WriteString("(get-value (" + strings.Join(ts, " ") + "))\n")
	}
	return b.String()
}

var symRe = regexp.MustCompile(`[A-Za-z_][A-Za-z0-9_.]*[!$][A-Za-z0-9_!$]+|p_[A-Za-z0-9_]+`)

// slicedPC: the path facts within two hops of the goal in the "shares a variable" graph (variables = engine-generated
// constants; variables that occur in many facts do not connect). Dropping hypotheses is always sound: an `unsat` answer for the
// sliced query is a proof of the full one.
func slicedPC(o *Obligation, hops int) []string {
	syms := func(t string) map[string]bool {
		m := map[string]bool{}
		for _, x := range symRe.FindAllString(t, -1) {
			m[x] = true
		}
		return m
	}
	facts := make([]map[string]bool, len(o.PC))
	count := map[string]int{}
	for i, p := range o.PC {
		facts[i] = syms(p)
		for x := range facts[i] {
			count[x]++
		}
	}
	hub := len(o.PC)/6 + 6
	cur := syms(o.Goal)
	keep := make([]bool, len(o.PC))
	for hop := 0; hop < hops; hop++ {
		next := map[string]bool{}
		for x := range cur {
			next[x] = true
		}
		for i, f := range facts {
			if keep[i] {
				continue
			}
			for x := range f {
				if cur[x] && count[x] <= hub {
					keep[i] = true
					for y := range f {
						next[y] = true
					}
					break
				}
			}
		}
		cur = next
	}
	var out []string
	for i, p := range o.PC {
		if keep[i] || len(facts[i]) == 0 {
			out = append(out, p)
		}
	}
	return out
}

type solveCfg struct {
	timeout int
	dir     string
	jobs    int
	seed    int
}

func runSolver(ctx context.Context, s solverSpec, file string, timeout int) (string, string) {
	c, cancel := context.WithTimeout(ctx, time.Duration(timeout+2)*time.Second)
	defer cancel()
	a := s.args(file, timeout)
	cmd := exec.CommandContext(c, a[0], a[1:]...)
	var out bytes.Buffer
	cmd.Stdout = &out
	cmd.Stderr = &out
	cmd.Run()
	txt := out.String()
	for _, ln := range strings.Split(txt, "\n") {
		first := strings.TrimSpace(ln)
		if strings.HasPrefix(first, "WARNING") || first == "" {
			continue
		}
		switch first {
		case "sat", "unsat", "unknown":
			return first, txt
		}
		break
	}
	if strings.Contains(txt, "timeout") || c.Err() != nil {
		return "timeout", txt
	}
	return "error", txt
}

func solveOne(ctxc *Ctx, o *Obligation, cfg solveCfg, idx int) {
	t0 := time.Now()
	if o.Kind == "effect" || o.Kind == "shape" {
		return
	}
	if o.Goal == "true" && !o.ExpectSat {
		o.Status, o.Solver = "proved", "trivial"
		return
	}
	q := buildQuery(ctxc, o, false)
	o.Size = len(q)
	file := filepath.Join(cfg.dir, fmt.Sprintf("q%05d.smt2", idx))
	os.WriteFile(file, []byte(q), 0o644)
	timeout := cfg.timeout
	if o.ExpectSat {
		timeout = 2
	}
	type ans struct{ solver, res, out string }
	ch := make(chan ans, len(solvers)+8)
	ctx, cancel := context.WithCancel(context.Background())
	defer cancel()
	for _, s := range solvers {
		s := s
		go func() {
			r, out := runSolver(ctx, s, file, timeout)
			ch <- ans{s.name, r, out}
		}()
	}
	// second stage of the portfolio: quantifier instantiation is sensitive to the search order, so an obligation that is
	// still open after a few seconds is also given to z3 with other (fixed) random seeds. Deterministic: same query, same seeds.
	nExtra := 0
	if !o.ExpectSat && len(o.PC) > 20 {
		for _, hops := range []int{1, 2} {
			sl := slicedPC(o, hops)
			if len(sl) >= len(o.PC)*3/4 {
				continue
			}
			o2 := *o
			o2.PC = sl
			fileS := filepath.Join(cfg.dir, fmt.Sprintf("q%05d_s%d.smt2", idx, hops))
			os.WriteFile(fileS, []byte(buildQuery(ctxc, &o2, false)), 0o644)
			nExtra++
			name := fmt.Sprintf("z3-new(hypotheses within %d hop(s) of the goal)", hops)
			go func() {
				sp := solverSpec{name, func(f string, t int) []string { return []string{"z3-new", fmt.Sprintf("-T:%d", t), f} }}
				r, out := runSolver(ctx, sp, fileS, timeout)
				if r != "unsat" {
					r = "unknown" // only a proof transfers from the sliced query to the full one
				}
				ch <- ans{sp.name, r, out}
			}()
		}
	}
	if !o.ExpectSat && timeout > 8 {
		for _, sd := range []int{3, 5, 11} {
			sd := sd
			nExtra++
			go func() {
				select {
				case <-ctx.Done():
					ch <- ans{fmt.Sprintf("z3-new(seed %d)", sd), "cancelled", ""}
				case <-time.After(4 * time.Second):
					sp := solverSpec{fmt.Sprintf("z3-new(seed %d)", sd), func(f string, t int) []string {
						return []string{"z3-new", fmt.Sprintf("-T:%d", t), fmt.Sprintf("smt.random_seed=%d", sd), fmt.Sprintf("sat.random_seed=%d", sd), f}
					}}
					r, out := runSolver(ctx, sp, file, timeout-4)
					ch <- ans{sp.name, r, out}
				}
			}()
		}
	}
	o.Answers = map[string]string{}
	definite := ""
	for i := 0; i < len(solvers)+nExtra; i++ {
		a := <-ch
		if a.res != "cancelled" {
			o.Answers[a.solver] = a.res
		}
		if a.res == "error" {
			o.Output += a.solver + ": " + trunc(a.out, 300) + "\n"
		}
		if definite == "" && (a.res == "sat" || a.res == "unsat") {
			definite = a.res
			o.Solver = a.solver
			o.Time = time.Since(t0).Seconds()
			if a.res == "sat" {
				o.Output += a.out
			}
			break
		}
	}
	cancel()
	if definite == "" {
		o.Time = time.Since(t0).Seconds()
	}
	if o.ExpectSat {
		if definite == "unsat" && o.PrePC != nil {
			// dead path? (the code before the loop is already unreachable under the preconditions)
			pre := &Obligation{PC: o.PrePC, Goal: "false"}
			qf := filepath.Join(cfg.dir, fmt.Sprintf("q%05d_pre.smt2", idx))
			os.WriteFile(qf, []byte(buildQuery(ctxc, pre, false)), 0o644)
			for _, s := range solvers {
				if r, _ := runSolver(context.Background(), s, qf, 3); r == "unsat" {
					o.Status, o.Solver = "proved", "dead-path("+s.name+")"
					return
				} else if r == "sat" {
					break
				}
			}
		}
		if definite == "unsat" {
			o.Status = "vacuous"
		} else {
			o.Status = "proved" // reachable (or undetermined): not vacuous
			if definite == "" {
				o.Solver = "none(undetermined, counted as non-vacuous)"
			}
		}
		return
	}
	switch definite {
	case "unsat":
		o.Status = "proved"
	case "sat":
		o.Status = "failed"
		if len(o.Observe) > 0 {
			q2 := buildQuery(ctxc, o, true)
			f2 := filepath.Join(cfg.dir, fmt.Sprintf("q%05d_m.smt2", idx))
			os.WriteFile(f2, []byte(q2), 0o644)
			for _, s := range solvers {
				if s.name == o.Solver {
					_, out := runSolver(context.Background(), s, f2, timeout)
					o.Model = parseValues(out, o.Observe)
					o.Output = out
				}
			}
		}
	default:
		o.Status = "unknown"
	}
}

// parseValues parses a (get-value) response: ((term value) ...)
func parseValues(out string, obs []obsTerm) map[string]string {
	m := map[string]string{}
	i := strings.Index(out, "((")
	if i < 0 {
		return m
	}
	s := out[i+1:]
	// split into top-level (term value) pairs
	depth := 0
	start := -1
	var pairs []string
	for j := 0; j < len(s); j++ {
		switch s[j] {
		case '(':
			if depth == 0 {
				start = j
			}
			depth++
		case ')':
			depth--
			if depth == 0 && start >= 0 {
				pairs = append(pairs, s[start+1:j])
				start = -1
			}
			if depth < 0 {
				j = len(s)
			}
		}
	}
	for k, p := range pairs {
		if k >= len(obs) {
			break
		}
		// value is the last s-expression in p
		p = strings.TrimSpace(p)
		val := lastSexp(p)
		m[obs[k].Label] = normVal(val)
	}
	return m
}

func lastSexp(p string) string {
	p = strings.TrimSpace(p)
	if strings.HasSuffix(p, ")") {
		d := 0
		for j := len(p) - 1; j >= 0; j-- {
			if p[j] == ')' {
				d++
			} else if p[j] == '(' {
				d--
				if d == 0 {
					return p[j:]
				}
			}
		}
	}
	f := strings.Fields(p)
	return f[len(f)-1]
}

func normVal(v string) string {
	v = strings.TrimSpace(v)
	if strings.HasPrefix(v, "(- ") {
		return "-" + strings.TrimSuffix(strings.TrimPrefix(v, "(- "), ")")
	}
	return v
}

func solveAll(ctxOf func(o *Obligation) *Ctx, obls []*Obligation, cfg solveCfg) {
	var wg sync.WaitGroup
	sem := make(chan struct{}, cfg.jobs)
	for i, o := range obls {
		wg.Add(1)
		sem <- struct{}{}
		go func(i int, o *Obligation) {
			defer wg.Done()
			defer func() { <-sem }()
			solveOne(ctxOf(o), o, cfg, i)
		}(i, o)
	}
	wg.Wait()
	// an obligation that no solver decided in the parallel pass is tried again on its own (nothing else running) with
	// twice the time: a timeout under machine load must not be mistaken for a failed proof. Only when at most 3 obligations are
	// undecided, so that a change that breaks obligations does not make the run much longer.
	nUnknown := 0
	for _, o := range obls {
		if o.Status == "unknown" && !o.ExpectSat && o.Kind != "effect" && o.Kind != "shape" {
			nUnknown++
		}
	}
	retried := 0
	for i, o := range obls {
		if o.Status != "unknown" || o.ExpectSat || o.Kind == "effect" || o.Kind == "shape" {
			continue
		}
		// load-induced timeouts hit one or two obligations; many undecided obligations mean the code changed
		if nUnknown > 3 || retried >= 3 {
			break
		}
		retried++
		prev := o.Answers
		c2 := cfg
		c2.timeout = cfg.timeout * 2
		solveOne(ctxOf(o), o, c2, i)
		if o.Status == "unknown" {
			for k, v := range prev {
				if _, ok := o.Answers[k]; !ok {
					o.Answers[k] = v
				}
			}
		} else {
			o.Solver += " (second attempt, alone)"
		}
	}
}
