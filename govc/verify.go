package main

import (
	"fmt"
	"go/ast"
	"go/token"
	"go/types"
	"os"
	"sort"
	"strings"

	"golang.org/x/tools/go/packages"
)

type FuncUnit struct {
	Pkg   *packages.Package
	Decl  *ast.FuncDecl
	Obj   *types.Func
	Key   string
	Scope *types.Scope
}

type Verifier struct {
	costMemo map[*types.Func]int
	fset       *token.FileSet
	pkgs       map[string]*packages.Package
	repoPkgs   map[string]bool
	funcs      map[string]*FuncUnit
	byObj      map[*types.Func]*FuncUnit
	cs         *ContractSet
	fieldOwner map[*types.Var]string
	allFields  []*types.Var
	allGlobals []*types.Var
	timeout    int
	cells      map[string]*types.Var
	renderTag  map[string]string
	curProp    string
	curProps   []string
}

func (v *Verifier) isRepoPkg(path string) bool { return v.repoPkgs[path] }

func (v *Verifier) unitName(cu *FuncUnit) string {
	if t, ok := v.renderTag[cu.Pkg.PkgPath]; ok {
		return "generated[" + t + "]." + shortKey(cu.Key)
	}
	return cu.Pkg.Types.Name() + "." + shortKey(cu.Key)
}

func (v *Verifier) contractOf(cu *FuncUnit) *Contract {
	return v.cs.Funcs[cu.Pkg.PkgPath+"::"+cu.Key]
}

func funcKey(fd *ast.FuncDecl) string {
	if fd.Recv == nil || len(fd.Recv.List) == 0 {
		return fd.Name.Name
	}
	t := fd.Recv.List[0].Type
	switch r := t.(type) {
	case *ast.StarExpr:
		return "(*" + exprStr(r.X) + ")." + fd.Name.Name
	default:
		return "(" + exprStr(t) + ")." + fd.Name.Name
	}
}

func (v *Verifier) addPackages(pkgs []*packages.Package) error {
	for _, p := range pkgs {
		if len(p.Errors) > 0 {
			return fmt.Errorf("package %s: %v", p.PkgPath, p.Errors[0])
		}
		v.pkgs[p.PkgPath] = p
		v.repoPkgs[p.PkgPath] = true
	}
	for _, p := range pkgs {
		for _, f := range p.Syntax {
			fname := v.fset.Position(f.Pos()).Filename
			if err := v.cs.parseFile(p.PkgPath, fname, f, func(n ast.Node) int { return v.fset.Position(n.Pos()).Line }); err != nil {
				return err
			}
			for _, d := range f.Decls {
				fd, ok := d.(*ast.FuncDecl)
				if !ok {
					continue
				}
				obj, _ := p.TypesInfo.Defs[fd.Name].(*types.Func)
				if obj == nil {
					continue
				}
				cu := &FuncUnit{Pkg: p, Decl: fd, Obj: obj, Key: funcKey(fd), Scope: p.TypesInfo.Scopes[fd.Type]}
				v.funcs[p.PkgPath+"::"+cu.Key] = cu
				v.byObj[obj] = cu
			}
		}
		// struct fields and globals
		sc := p.Types.Scope()
		names := sc.Names()
		sort.Strings(names)
		for _, nm := range names {
			switch o := sc.Lookup(nm).(type) {
			case *types.TypeName:
				if st, ok := o.Type().Underlying().(*types.Struct); ok {
					for i := 0; i < st.NumFields(); i++ {
						f := st.Field(i)
						v.fieldOwner[f] = p.Types.Name() + "_" + o.Name()
						v.allFields = append(v.allFields, f)
					}
				}
			case *types.Var:
				v.allGlobals = append(v.allGlobals, o)
			}
		}
	}
	return nil
}

type FuncResult struct {
	Unit       string
	Contract   *Contract
	Obls       []*Obligation
	Notes      []string
	Unmodelled []string
	Trusted    []string
	Err        string // binding / unsupported error
	Ctx        *Ctx
	Loops      int
	LoopsNoInv []int
	Emits      []*emitSite
}

func (v *Verifier) newExec(name string) *Exec {
	return &Exec{v: v, ctx: NewCtx(), unitName: name, siteOrd: map[string]map[string]int{}, siteVisits: map[string]int{},
		stmtHits: map[int]int{}, boxed: map[types.Object]bool{}, expanding: map[*types.Func]bool{}, inlining: map[*types.Func]bool{}, usedSpecFns: map[string]bool{}, trustedUsed: map[string]bool{}, ghostSorts: map[string]string{}}
}

// useClauses: axioms and lemma instances a function asks for
func (x *Exec) applyUses(cu *FuncUnit, clauses []*Clause, kind string, loop int, env *evalEnv) {
	for _, cl := range clauses {
		if cl.Kind != kind || (strings.HasPrefix(kind, "loop:") && cl.Loop != loop) {
			continue
		}
		for _, item := range splitCommaTop(cl.Text) {
			item = strings.TrimSpace(item)
			if item == "" {
				continue
			}
			x.useItem(cu, item, env, cl)
		}
	}
}

func (x *Exec) useItem(cu *FuncUnit, item string, env *evalEnv, cl *Clause) {
	item = strings.TrimSpace(item)
	name := item
	args := ""
	if i := strings.Index(item, "("); i > 0 && strings.HasSuffix(item, ")") {
		name = strings.TrimSpace(item[:i])
		args = item[i+1 : len(item)-1]
	}
	for _, ax := range x.v.cs.Axioms {
		if ax.Name == name && (ax.Pkg == cu.Pkg.PkgPath) {
			if ax.Node == nil {
				n, err := parseSpec(ax.Text)
				if err != nil {
					panic(evalError{fmt.Sprintf("%s:%d: BINDING: %v", ax.File, ax.Line, err)})
				}
				ax.Node = n
			}
			ae := &evalEnv{pkg: cu.Pkg.Types, spec: true, bound: map[string]Val{}, old: x.entry}
			x.st.assume(x.spec(ae, ax.Node))
			x.trustedUsed["axiom "+ax.Name+": "+trunc(ax.Text, 200)] = true
			return
		}
	}
	for _, lm := range x.v.cs.Lemmas {
		if lm.Name == name && lm.Pkg == cu.Pkg.PkgPath {
			x.st.assume(x.lemmaInstance(cu, lm, args, env))
			x.lemmasUsed[lm.Name] = true
			return
		}
	}
	panic(evalError{fmt.Sprintf("%s:%d: BINDING: use %s: no such axiom or lemma", cl.File, cl.Line, name)})
}

// lemmaInstance returns (requires => ensures) instantiated with args evaluated in the current state
func (x *Exec) lemmaInstance(cu *FuncUnit, lm *Lemma, args string, env *evalEnv) string {
	params := x.lemmaParams(cu, lm)
	le := &evalEnv{pkg: cu.Pkg.Types, spec: true, bound: map[string]Val{}, old: env.old}
	argExprs := splitCommaTop(args)
	if strings.TrimSpace(args) == "" {
		argExprs = nil
	}
	if len(argExprs) != len(params) {
		panic(evalError{fmt.Sprintf("BINDING: lemma %s expects %d arguments", lm.Name, len(params))})
	}
	for i, p := range params {
		n, err := parseSpec(argExprs[i])
		if err != nil {
			panic(evalError{"BINDING: " + err.Error()})
		}
		le.bound[p.name] = Val{x.specTerm(env, n), p.ty}
	}
	var reqs, enss []string
	for _, cl := range lm.Clauses {
		switch cl.Kind {
		case "requires":
			reqs = append(reqs, x.spec(le, x.parseClause(cl)))
		case "ensures":
			enss = append(enss, x.spec(le, x.parseClause(cl)))
		}
	}
	return implies(and(reqs...), and(enss...))
}

type lparam struct {
	name string
	ty   types.Type
}

func (x *Exec) lemmaParams(cu *FuncUnit, lm *Lemma) []lparam {
	fl, err := parseExprString("func(" + lm.Params + "){}")
	if err != nil {
		panic(evalError{fmt.Sprintf("%s:%d: BINDING: bad lemma params: %v", lm.File, lm.Line, err)})
	}
	env := &evalEnv{pkg: cu.Pkg.Types, spec: true}
	var out []lparam
	for _, f := range fl.(*ast.FuncLit).Type.Params.List {
		t := x.resolveType(env, f.Type)
		for _, n := range f.Names {
			out = append(out, lparam{n.Name, t})
		}
	}
	return out
}

// verifyFunc generates all obligations of one function under contract
func (v *Verifier) verifyFunc(cu *FuncUnit, con *Contract) (res *FuncResult) {
	name := v.unitName(cu)
	x := v.newExec(name)
	x.lemmasUsed = map[string]bool{}
	res = &FuncResult{Unit: name, Contract: con, Ctx: x.ctx}
	defer func() {
		if r := recover(); r != nil {
			if ee, ok := r.(evalError); ok {
				res.Err = ee.msg
				res.Obls = x.obls
				res.Notes = x.notes
				return
			}
			panic(r)
		}
	}()
	for _, cl := range con.Clauses {
		if cl.Kind == "order_only" && !hasAnyProp(con.TaggedOnly, v.curProps) {
			res.Notes = append(res.Notes, "order_only: only the map-iteration-order clauses of this contract are checked (C14)")
			res.Obls = v.pinObligations(cu, con, name)
			return res
		}
	}
	for _, cl := range con.Clauses {
		if cl.Kind == "effects_only" {
			res.Obls = v.effectObligations(cu, con, name)
			res.Notes = append(res.Notes, "effects_only: body is analysed for call order / callee sets only (no symbolic execution)")
			return res
		}
	}
	sig := cu.Obj.Type().(*types.Signature)
	st := &State{vars: map[types.Object]Val{}, heap: map[*types.Var]string{}, ghost: map[string]Val{}}
	st.alloc = x.ctx.Const("alloc$0", "Int")
	st.assume("(>= " + st.alloc + " 1)")
	x.st = st
	bindParam := func(p *types.Var) {
		if p == nil || p.Name() == "" || p.Name() == "_" {
			return
		}
		val := Val{x.ctx.Const("p_"+p.Name(), x.ctx.Sort(p.Type())), p.Type()}
		st.vars[p] = val
		x.readFacts(val)
	}
	bindParam(sig.Recv())
	if r := sig.Recv(); r != nil && r.Name() != "" && r.Name() != "_" {
		if _, isPtr := ptrElem(r.Type()); isPtr {
			st.assume(not(eq(st.vars[r].S, "0"))) // implicit precondition of a pointer-receiver method; checked at every modular call
		}
	}
	for i := 0; i < sig.Params().Len(); i++ {
		bindParam(sig.Params().At(i))
	}
	fr := x.newFrame(cu, con, true)
	x.frames = []*frame{fr}
	for _, r := range fr.results {
		st.vars[r] = Val{x.ctx.Zero(r.Type()), r.Type()}
	}
	for _, g := range v.cs.Ghosts {
		if g.Pkg == cu.Pkg.PkgPath && g.Type == "int" && g.Template == "" {
			st.ghost[g.Name] = Val{x.ctx.Const("ghost_"+g.Name+"$0", "Int"), tInt}
			x.ghostSorts[g.Name] = "Int"
		}
	}
	// ghost variables of the other repository packages: a callee's contract may list them in its modifies clause
	for _, g := range v.cs.Ghosts {
		if _, have := st.ghost[g.Name]; !have && g.Pkg != cu.Pkg.PkgPath && g.Type == "int" && g.Template == "" && !strings.HasPrefix(g.Pkg, "rendered/") && !strings.HasPrefix(cu.Pkg.PkgPath, "rendered/") {
			st.ghost[g.Name] = Val{x.ctx.Const("ghost_"+g.Name+"$0", "Int"), tInt}
			x.ghostSorts[g.Name] = "Int"
		}
	}
	x.entry = st.clone()
	bodyPos := cu.Decl.Body.Lbrace + 1
	env0 := &evalEnv{pkg: cu.Pkg.Types, scope: cu.Scope, pos: bodyPos, old: x.entry, spec: true, bound: map[string]Val{}}
	for _, cl := range con.Clauses {
		switch cl.Kind {
		case "requires":
			st.assume(x.spec(env0, x.parseClause(cl)))
		case "may_panic":
			s := strings.Trim(cl.Text, "\"")
			x.mayPanic = append(x.mayPanic, s)
		case "panics_when":
			x.panicsWhen = x.spec(env0, x.parseClause(cl))
		}
	}
	x.applyUses(cu, con.Clauses, "use", 0, env0)
	x.vacuity("vacuity:requires", cu.Decl.Pos(), "preconditions are satisfiable")
	x.entry.pc = append([]string(nil), st.pc...)
	x.inputObs = x.inputObservations(sig)

	f := x.block(cu.Decl.Body.List, st)
	rets := f.ret
	if f.next != nil {
		rets = append(rets, f.next)
	}
	if len(f.gotos) > 0 || len(f.brk) > 0 || len(f.cont) > 0 {
		x.fail(cu.Decl.Pos(), "dangling goto/break/continue")
	}
	for k, cl := range con.Clauses {
		if (cl.Kind == "before_stmt" || cl.Kind == "after_stmt") && x.stmtHits[k] == 0 {
			x.fail(cu.Decl.Pos(), "BINDING: %s:%d: no statement starts with the fragment of: %s", cl.File, cl.Line, trunc(cl.Text, 60))
		}
	}
	final := x.mergeAll(rets)
	if final != nil {
		x.st = final
		// canary: end of function must be reachable
		x.vacuity("vacuity:return", cu.Decl.End(), "some execution reaches a return")
		ee := &evalEnv{pkg: cu.Pkg.Types, scope: nil, old: x.entry, spec: true, bound: map[string]Val{}}
		if r := sig.Recv(); r != nil && r.Name() != "" {
			ee.bound[r.Name()] = x.entry.vars[r]
		}
		for i := 0; i < sig.Params().Len(); i++ {
			p := sig.Params().At(i)
			if p.Name() != "" && p.Name() != "_" {
				ee.bound[p.Name()] = x.entry.vars[p]
			}
		}
		for i, r := range fr.results {
			ee.bound[r.Name()] = final.vars[r]
			if i == 0 {
				ee.bound["result"] = final.vars[r]
			}
		}
		k := 0
		for _, cl := range con.Clauses {
			if cl.Kind != "ensures" {
				continue
			}
			g := x.spec(ee, x.parseClause(cl))
			x.addObl("post", fmt.Sprintf("post#%d", k), cu.Decl.End(), g, cl.Text, cl.Props, "")
			k++
		}
		if x.panicsWhen != "" {
			x.addObl("must_panic", "returns_only_when_not_panics_when", cu.Decl.End(), not(x.panicsWhen), "normal return only when panics_when is false", nil, "")
		}
		x.frameObls(cu, con, final, ee)
		x.emitObls(cu, con)
	} else {
		x.note("function never returns normally on any path")
	}
	for _, o := range x.obls {
		if !o.ExpectSat {
			o.Observe = x.inputObs
		}
	}
	x.obls = append(x.obls, v.effectObligations(cu, con, name)...)
	res.Obls = x.obls
	res.Notes = x.notes
	res.Unmodelled = x.unmodelled
	res.Emits = x.emitSites
	for k := range x.trustedUsed {
		res.Trusted = append(res.Trusted, k)
	}
	sort.Strings(res.Trusted)
	res.Loops = len(fr.loopOrd)
	for _, ord := range fr.loopOrd {
		if len(x.loopClauses2(con, ord)) == 0 {
			res.LoopsNoInv = append(res.LoopsNoInv, ord)
		}
	}
	sort.Ints(res.LoopsNoInv)
	return res
}

func (x *Exec) loopClauses2(con *Contract, ord int) []*Clause {
	var out []*Clause
	for _, cl := range con.Clauses {
		if cl.Kind == "loop:invariant" && cl.Loop == ord {
			out = append(out, cl)
		}
	}
	return out
}

// frame obligations: everything not named by modifies is unchanged
func (x *Exec) frameObls(cu *FuncUnit, con *Contract, final *State, ee *evalEnv) {
	hasMod := false
	for _, cl := range con.Clauses {
		if cl.Kind == "modifies" {
			hasMod = true
		}
	}
	if !hasMod {
		return
	}
	items := x.parseModifies(cu, con)
	for _, it := range items {
		if it.all {
			return
		}
	}
	var flds []*types.Var
	for f := range final.heap {
		flds = append(flds, f)
	}
	sort.Slice(flds, func(i, j int) bool { return x.heapName(flds[i]) < x.heapName(flds[j]) })
	for _, f := range flds {
		h0 := x.heapOf(x.entry, f)
		h1 := final.heap[f]
		if h0 == h1 {
			continue
		}
		whole := false
		var objs []string
		for _, it := range items {
			if it.whole && it.field == f {
				whole = true
			}
			if it.deref != nil {
				for _, df := range x.derefFields(cu, it.deref) {
					if df == f {
						sv := x.st
						x.st = x.entry
						x.inSpec++
						o := x.expr(ee, it.deref)
						x.inSpec--
						x.st = sv
						objs = append(objs, o.S)
					}
				}
			}
			if it.objExp != nil {
				sel := it.objExp.(*ast.SelectorExpr)
				if x.fieldByName(cu, sel) == f {
					sv := x.st
					x.st = x.entry
					x.inSpec++
					o := x.expr(ee, sel.X)
					x.inSpec--
					x.st = sv
					objs = append(objs, o.S)
				}
			}
		}
		if whole {
			continue
		}
		conds := []string{"(< 0 r)", "(< r " + x.entry.alloc + ")"}
		for _, o := range objs {
			conds = append(conds, "(not (= r "+o+"))")
		}
		g := fmt.Sprintf("(forall ((r Int)) (=> %s (= (select %s r) (select %s r))))", and(conds...), h1, h0)
		x.addObl("frame", "frame:"+x.v.fieldOwner[f]+"."+f.Name(), cu.Decl.End(), g, "modifies clause: field "+f.Name()+" of pre-existing objects unchanged except as listed", nil, "")
	}
	for _, g := range x.v.allGlobals {
		v1, ok := final.vars[g]
		if !ok {
			continue
		}
		v0 := x.globalVal(x.entry, g)
		if v0.S == v1.S {
			continue
		}
		allowed := false
		for _, it := range items {
			if it.global == g {
				allowed = true
			}
		}
		if allowed {
			continue
		}
		x.addObl("frame", "frame:"+g.Name(), cu.Decl.End(), eq(v1.S, v0.S), "modifies clause: package variable "+g.Name()+" unchanged", nil, "")
	}
}

// emits obligations, evaluated in the state at the fmt.Sprintf call whose format contains the quoted fragment:
//   emits "<format fragment>" argN == <spec expr>      the N-th argument (1-based, after the format) has this value
//   emits "<format fragment>" assert <spec expr>       holds whenever that call is executed
func (x *Exec) emitObls(cu *FuncUnit, con *Contract) {
	for _, cl := range con.Clauses {
		if cl.Kind != "emits" && cl.Kind != "libarg" {
			continue
		}
		isLib := cl.Kind == "libarg"
		txt := strings.TrimSpace(cl.Text)
		if !strings.HasPrefix(txt, "\"") && !strings.HasPrefix(txt, "`") {
			panic(evalError{fmt.Sprintf("%s:%d: BINDING: emits needs a quoted format fragment", cl.File, cl.Line)})
		}
		end := strings.Index(txt[1:], txt[:1])
		frag := txt[1 : 1+end]
		rest := strings.TrimSpace(txt[2+end:])
		argN := -1
		var expr string
		if strings.HasPrefix(rest, "assert ") {
			expr = strings.TrimSpace(rest[7:])
		} else {
			if _, err := fmt.Sscanf(rest, "arg%d", &argN); err != nil {
				panic(evalError{fmt.Sprintf("%s:%d: BINDING: emits: expected argN or assert", cl.File, cl.Line)})
			}
			i := strings.Index(rest, "==")
			expr = strings.TrimSpace(rest[i+2:])
		}
		n, err := parseSpec(expr)
		if err != nil {
			panic(evalError{fmt.Sprintf("%s:%d: BINDING: %v", cl.File, cl.Line, err)})
		}
		found := 0
		base := fmt.Sprintf("emits:%s", sanitize(strings.TrimSpace(frag)))
		if argN >= 0 {
			base += fmt.Sprintf(".arg%d", argN)
		} else {
			base += ".assert"
		}
		if isLib {
			base = fmt.Sprintf("libarg:%s.arg%d", sanitize(frag), argN)
			if argN < 0 {
				base = fmt.Sprintf("libarg:%s.assert", sanitize(frag))
			}
		}
		for _, es := range x.emitSites {
			if isLib {
				if es.Format != "@call:"+frag {
					continue
				}
			} else if strings.HasPrefix(es.Format, "@call:") || !strings.Contains(es.Format, frag) {
				continue
			}
			found++
			sv := x.st
			x.st = es.St
			env := x.specEnvAt(es.Pos)
			if argN >= 0 {
				if argN >= len(es.Args) {
					x.addObl("emits", base, es.Pos, "false", cl.Text+"   [the call has no argument "+fmt.Sprint(argN)+"]", cl.Props, fmt.Sprint(found))
				} else {
					t := x.specTerm(env, n)
					x.addObl("emits", base, es.Pos, eq(es.Args[argN].S, t), cl.Text, cl.Props, fmt.Sprint(found))
				}
			} else {
				x.addObl("emits", base, es.Pos, x.spec(env, n), cl.Text, cl.Props, fmt.Sprint(found))
			}
			x.st = sv
		}
		if found == 0 {
			why := "   [no fmt.Sprintf / fmt.Printf call whose format contains this fragment: a literal where a hole is required?]"
			if isLib {
				why = "   [no call of this library function is executed]"
			}
			o := x.addObl("emits", base, cu.Decl.Pos(), "false", cl.Text+why, cl.Props, "0")
			o.PC = []string{}
		}
	}
}

func fatalf(format string, args ...interface{}) {
	fmt.Fprintf(os.Stderr, format+"\n", args...)
	os.Exit(2)
}

// pinObligations: in an order_only run the purely textual pins (`before_stmt "fragment" true`) that carry the current
// property are still checked - syntactically: some statement of the body starts with the fragment. An order assumption of
// the form "the list is consumed as a set by F" is only as good as the pin that says F is the consumer.
func (v *Verifier) pinObligations(cu *FuncUnit, con *Contract, name string) []*Obligation {
	var obls []*Obligation
	var texts []string
	ast.Inspect(cu.Decl.Body, func(n ast.Node) bool {
		if s, ok := n.(ast.Stmt); ok {
			switch s.(type) {
			case *ast.BlockStmt, *ast.LabeledStmt:
			default:
				texts = append(texts, strings.Join(strings.Fields(exprStr(s)), " "))
			}
		}
		return true
	})
	for k, cl := range con.Clauses {
		if cl.Kind != "before_stmt" && cl.Kind != "after_stmt" {
			continue
		}
		if len(cl.Props) > 0 && !hasAnyProp(cl.Props, v.curProps) {
			continue
		}
		t := strings.TrimSpace(cl.Text)
		if len(t) < 2 || (t[0] != '"' && t[0] != '`') {
			continue
		}
		end := strings.Index(t[1:], t[:1])
		if end < 0 || strings.TrimSpace(t[2+end:]) != "true" {
			continue
		}
		frag := t[1 : 1+end]
		hit := false
		for _, tx := range texts {
			if strings.HasPrefix(tx, frag) {
				hit = true
				break
			}
		}
		o := &Obligation{Func: name, Name: fmt.Sprintf("%s/pin#%d", name, k), Kind: "pin", Props: cl.Props, Goal: "true", Src: cl.Text, Pos: posStr(v.fset, cu.Decl.Pos()), Solver: "syntactic"}
		if hit {
			o.Status = "proved"
		} else {
			o.Status, o.Goal, o.Output = "failed", "false", "no statement of the body starts with the pinned fragment"
		}
		obls = append(obls, o)
	}
	return obls
}
