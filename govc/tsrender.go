package main

// The TypeScript back end. The generated .ts file (written by the real TsGenFromString, see render/render_test.go) is
// cut into its static driver pieces - the StateSym class, PushStateSym, PopStateSym, initialize, Parser, fetchLookAhead,
// the frame of ReduceFunc and translate - and these are transliterated LINE BY LINE into Go by the fixed rules below, so
// that the same verifier and the same kind of contract (Builder/driver_contracts_verif.go, section "ts") apply to the
// text yaccgo really emits. Nothing here knows what the driver is supposed to do: a statement outside the rules is
// reported (shape obligation), never guessed.
//
// Rules (R = rewrite, D = dropped, A = abstraction), all purely syntactic:
//   R1  function F(p :T, ...) :R {          ->  func F(p T, ...) R {        (no result type + a `return e`: result int)
//   R2  number -> int, string -> string, ValType -> *ValType, StateSym -> *StateSym, StateSym[] -> []*StateSym,
//       number[][] -> [][]int, {ValType :ValType, pos :number} -> *tsModel   (objects are references in TypeScript)
//   R3  let|const|var x = e                 ->  x := e ;   var x :T = e -> var x T = e ;   var x :T -> var x T
//   R4  while (true) {  -> for { ;  if (c) { -> if c { ;  }else if (c) { -> } else if c { ;  }else { -> } else {
//   R5  switch (x) { -> switch x { ; a `break` that ends a case is dropped; a case that does not end in break/return is
//       a shape violation (TypeScript would fall through, Go would not)
//   R6  new StateSym(a, b) -> newStateSym(a, b) (the transliterated constructor); new ValType() -> &ValType{};
//       [e] on the right of `StateSymStack =` -> []*StateSym{e}; [] -> []*StateSym{}
//   R7  X.length -> len(X); X.push(e) -> X = append(X, e); X.slice(a, b) -> append([]*StateSym{}, X[a:b]...)
//   R8  null -> nil; console.error(...) -> consoleError(...); {ValType :v, pos :p} -> &tsModel{ValType: v, pos: p}
//   R9  class StateSym { fields; constructor; methods } -> struct + func newStateSym + methods with receiver `this`
//   D   comments, trailing semicolons, "use strict", the user's prologue / epilogue / union members / action bodies,
//       the numbers of the table literal (they are tied to the grammar by the emits clauses of the builders)
//   A   the cases of `switch (reduceIndex)` are checked against the schematic shape and replaced by the schematic case
//       (same abstraction as for the Go renderings); constants ERROR_ACTION / ACCEPT_ACTION become variables
// Not captured (assumptions, listed in the evidence): number is a double (exact for |n| < 2^53); an out-of-range array
// read yields undefined instead of stopping (all reads are proved in range); `undefined` and `null` are both nil.

import (
	"bytes"
	"fmt"
	"go/ast"
	"go/format"
	"go/parser"
	"go/token"
	"os"
	"path/filepath"
	"regexp"
	"strings"
)

// tsMatch returns the index just after the brace that closes the one at src[open] (skipping strings and comments)
func tsMatch(src string, open int) int {
	depth := 0
	for i := open; i < len(src); i++ {
		c := src[i]
		switch {
		case c == '/' && i+1 < len(src) && src[i+1] == '/':
			for i < len(src) && src[i] != '\n' {
				i++
			}
		case c == '/' && i+1 < len(src) && src[i+1] == '*':
			j := strings.Index(src[i+2:], "*/")
			if j < 0 {
				return -1
			}
			i += j + 3
		case c == '"' || c == '\'' || c == '`':
			q := c
			i++
			for i < len(src) && src[i] != q {
				if src[i] == '\\' {
					i++
				}
				if q != '`' && src[i] == '\n' {
					break
				}
				i++
			}
		case c == '{':
			depth++
		case c == '}':
			depth--
			if depth == 0 {
				return i + 1
			}
		}
	}
	return -1
}

func tsBlock(src string, re *regexp.Regexp) (string, bool) {
	loc := re.FindStringIndex(src)
	if loc == nil {
		return "", false
	}
	open := strings.Index(src[loc[0]:], "{")
	// the first brace after the header that is not part of a parameter object type: skip braces inside the parentheses
	par := strings.Index(src[loc[0]:], "(")
	if par >= 0 && par < open {
		depth := 0
		i := loc[0] + par
		for ; i < len(src); i++ {
			if src[i] == '(' {
				depth++
			} else if src[i] == ')' {
				depth--
				if depth == 0 {
					break
				}
			}
		}
		open = strings.Index(src[i:], "{")
		if open < 0 {
			return "", false
		}
		open += i - loc[0]
	}
	if open < 0 {
		return "", false
	}
	end := tsMatch(src, loc[0]+open)
	if end < 0 {
		return "", false
	}
	return src[loc[0]:end], true
}

var tsModelType = regexp.MustCompile(`\{\s*ValType\s*:\s*ValType\s*,\s*pos\s*:\s*number\s*\}`)

func tsType(t string) (string, error) {
	t = strings.TrimSpace(t)
	switch t {
	case "number":
		return "int", nil
	case "string":
		return "string", nil
	case "ValType":
		return "*ValType", nil
	case "StateSym":
		return "*StateSym", nil
	case "StateSym[]":
		return "[]*StateSym", nil
	case "number[][]":
		return "[][]int", nil
	case "tsModel":
		return "*tsModel", nil
	}
	return "", fmt.Errorf("type %q is outside the transliterated subset", t)
}

func tsParams(p string) (string, error) {
	p = tsModelType.ReplaceAllString(p, "tsModel")
	p = strings.TrimSpace(p)
	if p == "" {
		return "", nil
	}
	var out []string
	for _, one := range strings.Split(p, ",") {
		kv := strings.SplitN(one, ":", 2)
		if len(kv) != 2 {
			return "", fmt.Errorf("parameter %q has no type", strings.TrimSpace(one))
		}
		ty, err := tsType(kv[1])
		if err != nil {
			return "", err
		}
		out = append(out, strings.TrimSpace(kv[0])+" "+ty)
	}
	return strings.Join(out, ", "), nil
}

var (
	tsObjLit    = regexp.MustCompile(`\{\s*ValType\s*:\s*(\w+)\s*,\s*pos\s*:\s*(\w+)\s*\}`)
	tsNewSym    = regexp.MustCompile(`\bnew\s+StateSym\s*\(`)
	tsNewVal    = regexp.MustCompile(`\bnew\s+ValType\s*\(\s*\)`)
	tsLength    = regexp.MustCompile(`\b(\w+)\.length\b`)
	tsSlice     = regexp.MustCompile(`\b(\w+)\.slice\(\s*([^,]+?)\s*,\s*(\w+)\s*\)`)
	tsPush      = regexp.MustCompile(`^(\s*)(\w+)\.push\((.+)\)$`)
	tsNull      = regexp.MustCompile(`\bnull\b`)
	tsConsole   = regexp.MustCompile(`\bconsole\.error\(`)
	tsArrLit    = regexp.MustCompile(`=\s*\[(.*)\]$`)
	tsLetInit   = regexp.MustCompile(`^(\s*)(?:let|const|var)\s+(\w+)\s*=\s*(.+)$`)
	tsVarTyInit = regexp.MustCompile(`^(\s*)var\s+(\w+)\s*:\s*([\w\[\]]+)\s*=\s*(.+)$`)
	tsVarTy     = regexp.MustCompile(`^(\s*)var\s+(\w+)\s*:\s*([\w\[\]]+)$`)
	tsWhile     = regexp.MustCompile(`^(\s*)while\s*\(\s*true\s*\)\s*\{$`)
	tsIf        = regexp.MustCompile(`^(\s*)(\}\s*else\s+)?if\s*\((.*)\)\s*\{$`)
	tsElse      = regexp.MustCompile(`^(\s*)\}\s*else\s*\{$`)
	tsSwitch    = regexp.MustCompile(`^(\s*)switch\s*\(\s*(\w+)\s*\)\s*\{$`)
	tsCase      = regexp.MustCompile(`^\s*case\s+(-?\d+)\s*:$`)
	tsFuncHead  = regexp.MustCompile(`(?s)^function\s+(\w+)\s*\((.*?)\)\s*(?::\s*([\w\[\]]+))?\s*\{`)
	tsLineCmt   = regexp.MustCompile(`//.*$`)
	tsBlockCmt  = regexp.MustCompile(`(?s)/\*.*?\*/`)
	tsMethodHd  = regexp.MustCompile(`(?s)^(\w+)\s*\((.*?)\)\s*(?::\s*([\w\[\]]+))?\s*\{`)
	tsFieldDecl = regexp.MustCompile(`^\s*(\w+)\s*:\s*([\w\[\]]+)\s*;?\s*$`)
)

func tsExpr(e string) string {
	e = tsObjLit.ReplaceAllString(e, "&tsModel{ValType: $1, pos: $2}")
	e = tsNewSym.ReplaceAllString(e, "newStateSym(")
	e = tsNewVal.ReplaceAllString(e, "&ValType{}")
	e = tsSlice.ReplaceAllString(e, "append([]*StateSym{}, $1[$2:$3]...)")
	e = tsLength.ReplaceAllString(e, "len($1)")
	e = tsNull.ReplaceAllString(e, "nil")
	e = tsConsole.ReplaceAllString(e, "consoleError(")
	return e
}

// tsBody transliterates the statement lines of one function body (without the header line and the final brace)
func tsBody(body string) (string, []string) {
	var bad []string
	body = tsBlockCmt.ReplaceAllString(body, "")
	var out []string
	inSwitch := 0 // brace depth at which a switch was opened (0: none)
	depth := 0
	lastStmt := "" // last statement seen in the current case
	caseOpen := false
	endCase := func() {
		if caseOpen && !(lastStmt == "break" || strings.HasPrefix(lastStmt, "return")) {
			bad = append(bad, "a switch case does not end in break or return (TypeScript falls through)")
		}
		caseOpen = false
		lastStmt = ""
	}
	for _, ln := range strings.Split(body, "\n") {
		ln = tsLineCmt.ReplaceAllString(ln, "")
		ln = strings.TrimRight(ln, " \t\r")
		ln = strings.TrimSuffix(ln, ";")
		ln = strings.TrimRight(ln, " \t")
		if strings.TrimSpace(ln) == "" {
			continue
		}
		t := strings.TrimSpace(ln)
		switch {
		case tsSwitch.MatchString(ln):
			m := tsSwitch.FindStringSubmatch(ln)
			out = append(out, m[1]+"switch "+m[2]+" {")
			depth++
			if inSwitch != 0 {
				bad = append(bad, "nested switch")
			}
			inSwitch = depth
			continue
		case inSwitch != 0 && depth == inSwitch && tsCase.MatchString(ln):
			endCase()
			caseOpen = true
			out = append(out, ln)
			continue
		case inSwitch != 0 && depth == inSwitch && t == "default:":
			endCase()
			caseOpen = true
			out = append(out, ln)
			continue
		case inSwitch != 0 && depth == inSwitch && t == "break":
			lastStmt = "break" // ends the case: nothing to emit in Go
			continue
		case inSwitch != 0 && depth == inSwitch && t == "}":
			endCase()
			inSwitch = 0
			depth--
			out = append(out, ln)
			continue
		}
		if inSwitch != 0 && depth == inSwitch {
			if lastStmt == "break" {
				bad = append(bad, "statement after break inside a case: "+t)
			}
			lastStmt = t
		}
		switch {
		case tsWhile.MatchString(ln):
			out = append(out, tsWhile.ReplaceAllString(ln, "${1}for {"))
			depth++
		case tsIf.MatchString(ln):
			m := tsIf.FindStringSubmatch(ln)
			if m[2] != "" {
				out = append(out, m[1]+"} else if "+tsExpr(m[3])+" {")
			} else {
				out = append(out, m[1]+"if "+tsExpr(m[3])+" {")
				depth++
			}
		case tsElse.MatchString(ln):
			out = append(out, tsElse.ReplaceAllString(ln, "${1}} else {"))
		case t == "}":
			depth--
			out = append(out, ln)
		case t == "{":
			depth++
			out = append(out, ln)
		case tsVarTyInit.MatchString(ln):
			m := tsVarTyInit.FindStringSubmatch(ln)
			ty, err := tsType(m[3])
			if err != nil {
				bad = append(bad, err.Error())
			}
			out = append(out, m[1]+"var "+m[2]+" "+ty+" = "+tsExpr(m[4]))
		case tsVarTy.MatchString(ln):
			m := tsVarTy.FindStringSubmatch(ln)
			ty, err := tsType(m[3])
			if err != nil {
				bad = append(bad, err.Error())
			}
			out = append(out, m[1]+"var "+m[2]+" "+ty)
		case tsLetInit.MatchString(ln):
			m := tsLetInit.FindStringSubmatch(ln)
			out = append(out, m[1]+m[2]+" := "+tsExpr(m[3]))
		case tsPush.MatchString(ln):
			m := tsPush.FindStringSubmatch(ln)
			out = append(out, m[1]+m[2]+" = append("+m[2]+", "+tsExpr(m[3])+")")
		default:
			if m := tsArrLit.FindStringSubmatchIndex(ln); m != nil && strings.Contains(ln[:m[0]], "StateSymStack") {
				out = append(out, ln[:m[0]]+"= []*StateSym{"+tsExpr(ln[m[2]:m[3]])+"}")
			} else {
				out = append(out, tsExpr(ln))
			}
		}
	}
	return strings.Join(out, "\n"), bad
}

// tsFunc transliterates `function F(...) ... { ... }`
func tsFunc(text string) (string, []string) {
	m := tsFuncHead.FindStringSubmatch(text)
	if m == nil {
		return "", []string{"function header outside the transliterated subset: " + trunc(text, 60)}
	}
	var bad []string
	params, err := tsParams(m[2])
	if err != nil {
		bad = append(bad, m[1]+": "+err.Error())
	}
	res := ""
	if m[3] != "" {
		ty, err := tsType(m[3])
		if err != nil {
			bad = append(bad, m[1]+": "+err.Error())
		}
		res = " " + ty
	}
	body := text[len(m[0]) : len(text)-1]
	if m[3] == "" && regexp.MustCompile(`(?m)^\s*return\s+\S`).MatchString(body) {
		res = " int"
	}
	b, bad2 := tsBody(body)
	for _, x := range bad2 {
		bad = append(bad, m[1]+": "+x)
	}
	return "func " + m[1] + "(" + params + ")" + res + " {\n" + b + "\n}\n", bad
}

// tsClass transliterates `class StateSym { ... }`
func tsClass(text string) (string, []string) {
	var bad []string
	open := strings.Index(text, "{")
	body := tsBlockCmt.ReplaceAllString(text[open+1:len(text)-1], "")
	var fields, funcs []string
	for i := 0; i < len(body); {
		// next line or member
		j := strings.IndexByte(body[i:], '\n')
		if j < 0 {
			j = len(body) - i
		}
		line := tsLineCmt.ReplaceAllString(body[i:i+j], "")
		t := strings.TrimSpace(line)
		switch {
		case t == "" || t == ";":
			i += j + 1
		case tsFieldDecl.MatchString(t):
			m := tsFieldDecl.FindStringSubmatch(t)
			ty, err := tsType(m[2])
			if err != nil {
				bad = append(bad, "class StateSym: "+err.Error())
			}
			fields = append(fields, "\t"+m[1]+" "+ty)
			i += j + 1
		default:
			start := i + strings.Index(body[i:], t)
			mh := tsMethodHd.FindStringSubmatch(body[start:])
			if mh == nil {
				bad = append(bad, "class StateSym: member outside the transliterated subset: "+trunc(t, 60))
				i += j + 1
				continue
			}
			end := tsMatch(body, start+len(mh[0])-1)
			if end < 0 {
				bad = append(bad, "class StateSym: unbalanced braces in "+mh[1])
				return "", bad
			}
			params, err := tsParams(mh[2])
			if err != nil {
				bad = append(bad, "class StateSym."+mh[1]+": "+err.Error())
			}
			b, bad2 := tsBody(body[start+len(mh[0]) : end-1])
			for _, x := range bad2 {
				bad = append(bad, "class StateSym."+mh[1]+": "+x)
			}
			if mh[1] == "constructor" {
				funcs = append(funcs, "func newStateSym("+params+") *StateSym {\n\tthis := &StateSym{}\n"+b+"\n\treturn this\n}\n")
			} else {
				res := ""
				if mh[3] != "" {
					ty, err := tsType(mh[3])
					if err != nil {
						bad = append(bad, "class StateSym."+mh[1]+": "+err.Error())
					}
					res = " " + ty
				}
				funcs = append(funcs, "func (this *StateSym) "+mh[1]+"("+params+")"+res+" {\n"+b+"\n}\n")
			}
			i = end
		}
	}
	return "type StateSym struct {\n" + strings.Join(fields, "\n") + "\n}\n\n" + strings.Join(funcs, "\n"), bad
}

var (
	tsReduceCase = regexp.MustCompile(`(?m)^case (\d+): \{$`)
	tsCaseHead   = regexp.MustCompile(`^case \d+: \{\n\tdollarDolar\.YySymIndex = \d+\n\tlet Dollar = StateSymStack\.slice\(topIndex-(\d+) , StackPointer\);\n`)
	tsCaseTail   = regexp.MustCompile(`\n\tPopStateSym\((\d+)\);\n\tbreak;\n\}\s*$`)
)

// tsAbstractReduce checks the emitted reduce cases and replaces them by the schematic case
func (rv *renderedVariant) tsAbstractReduce(fn string) string {
	re := regexp.MustCompile(`switch\s*\(\s*reduceIndex\s*\)\s*\{`)
	loc := re.FindStringIndex(fn)
	if loc == nil {
		rv.Shape = append(rv.Shape, "ReduceFunc has no `switch (reduceIndex)`")
		return fn
	}
	end := tsMatch(fn, loc[1]-1)
	if end < 0 {
		rv.Shape = append(rv.Shape, "ReduceFunc: unbalanced braces")
		return fn
	}
	cases := fn[loc[1] : end-1]
	idx := tsReduceCase.FindAllStringIndex(cases, -1)
	if strings.TrimSpace(cases) != "" && (len(idx) == 0 || strings.TrimSpace(cases[:idx[0][0]]) != "") {
		rv.Shape = append(rv.Shape, "ReduceFunc: text in front of the first reduce case")
	}
	for k, ix := range idx {
		hi := len(cases)
		if k+1 < len(idx) {
			hi = idx[k+1][0]
		}
		chunk := cases[ix[0]:hi]
		label := strings.TrimSuffix(strings.SplitN(chunk, "\n", 2)[0], " {")
		h := tsCaseHead.FindStringSubmatch(chunk)
		t := tsCaseTail.FindStringSubmatch(chunk)
		switch {
		case h == nil:
			rv.Shape = append(rv.Shape, label+" does not start with `dollarDolar.YySymIndex = <lhs id>; let Dollar = StateSymStack.slice(topIndex-<n> , StackPointer);`")
		case t == nil:
			rv.Shape = append(rv.Shape, label+" does not end with `PopStateSym(<n>); break; }`")
		case h[1] != t[1]:
			rv.Shape = append(rv.Shape, label+" window size "+h[1]+" differs from pop count "+t[1])
		}
	}
	schem := `
	{
		dollarDolar.YySymIndex = spec_lhs(reduceIndex)
		let Dollar = StateSymStack.slice(topIndex-spec_rhsLen(reduceIndex) , StackPointer);
		spec_userAction(reduceIndex, dollarDolar, Dollar)
		PopStateSym(spec_rhsLen(reduceIndex));
	}
`
	return fn[:loc[0]] + schem + fn[end:]
}

const tsPrelude = `
// declarations the transliteration supplies (fixed text)
var ERROR_ACTION int
var ACCEPT_ACTION int
var StateActionArray [][]int

// the user's union: its members are user code
type ValType struct{ tsUserFields int }

// the object literal {ValType, pos} handed to the lexer
type tsModel struct {
	ValType *ValType
	pos     int
}

func consoleError(msg string) {}

// user code (epilogue)
func GetToken(input string, model *tsModel) int
`

func extractRenderedTS(src []byte, name string, prelude string, outDir string) (*renderedVariant, error) {
	rv := &renderedVariant{Name: name, Tags: map[string]bool{"ts": true, "lr": true}, Static: map[string]string{}}
	s := string(src)
	shape := func(msg string) { rv.Shape = append(rv.Shape, "TypeScript: "+msg) }
	var out bytes.Buffer
	out.WriteString("package main\n\n// transliterated from " + name + ".ts by govc/tsrender.go\n" + tsPrelude + "\n")
	for _, must := range []struct{ re, what string }{
		{`(?m)^const ERROR_ACTION = -?\d+$`, "const ERROR_ACTION = <n>"},
		{`(?m)^const ACCEPT_ACTION = -?\d+$`, "const ACCEPT_ACTION = <n>"},
		{`(?m)^var StateActionArray :number\[\]\[\] =\[$`, "var StateActionArray :number[][] =["},
		{`(?m)^var StateSymStack :StateSym\[\] = \[\];$`, "var StateSymStack :StateSym[] = [];"},
		{`(?m)^var StackPointer = 0;$`, "var StackPointer = 0;"},
		{`(?m)^initialize\(\);$`, "the load-time call initialize();"},
	} {
		if !regexp.MustCompile(must.re).MatchString(s) {
			shape("missing `" + must.what + "`")
		}
	}
	out.WriteString("var StateSymStack []*StateSym = []*StateSym{}\nvar StackPointer = 0\n\n")
	if cl, ok := tsBlock(s, regexp.MustCompile(`(?m)^class StateSym\s*\{`)); ok {
		g, bad := tsClass(cl)
		for _, b := range bad {
			shape(b)
		}
		out.WriteString(g + "\n")
	} else {
		shape("no class StateSym")
	}
	for _, fn := range []string{"PushStateSym", "PopStateSym", "initialize", "Parser", "fetchLookAhead", "ReduceFunc", "translate"} {
		txt, ok := tsBlock(s, regexp.MustCompile(`(?m)^function `+fn+`\s*\(`))
		if !ok {
			shape("no function " + fn)
			continue
		}
		if fn == "ReduceFunc" {
			txt = rv.tsAbstractReduce(txt)
		}
		g, bad := tsFunc(txt)
		for _, b := range bad {
			shape(b)
		}
		out.WriteString(g + "\n")
	}
	dir := filepath.Join(outDir, name)
	os.MkdirAll(dir, 0o755)
	rv.Dir = dir
	gosrc := out.Bytes()
	fset := token.NewFileSet()
	f, err := parser.ParseFile(fset, name+".go", gosrc, 0)
	if err != nil {
		shape("the transliterated driver does not parse as Go: " + err.Error())
		// keep a compilable stub so that the variant is still reported
		gosrc = []byte("package main\n")
	} else {
		seenT := false
		for _, d := range f.Decls {
			if fd, ok := d.(*ast.FuncDecl); ok && fd.Body != nil {
				var b bytes.Buffer
				format.Node(&b, fset, fd)
				if fd.Name.Name == "translate" && fd.Recv == nil {
					seenT = true
					rv.lookupSwitchShape(fset, fd)
					continue
				}
				rv.Static[funcKey(fd)] = tokenString(b.Bytes())
			}
		}
		if !seenT {
			rv.ShapeT = append(rv.ShapeT, "no function translate in the TypeScript file")
		}
		var b bytes.Buffer
		if err := format.Node(&b, fset, f); err == nil {
			gosrc = b.Bytes()
		}
	}
	os.WriteFile(filepath.Join(dir, "go.mod"), []byte("module rendered/"+name+"\n\ngo 1.18\n"), 0o644)
	os.WriteFile(filepath.Join(dir, "main.go"), gosrc, 0o644)
	pre := "package main\n\n" + strings.ReplaceAll(strings.ReplaceAll(prelude, "/*RECV*/", ""), "Dollar []StateSym", "Dollar []*StateSym") + "\n"
	os.WriteFile(filepath.Join(dir, "zz_spec_prelude.go"), []byte(pre), 0o644)
	return rv, nil
}
