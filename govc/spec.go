package main

import (
	"bytes"
	"fmt"
	"go/ast"
	"go/printer"
	"go/token"
	"go/types"
	"strings"
)

func printNode(b *strings.Builder, n ast.Node) {
	var buf bytes.Buffer
	printer.Fprint(&buf, token.NewFileSet(), n)
	b.WriteString(buf.String())
}

func (x *Exec) note(s string) {
	for _, n := range x.notes {
		if n == s {
			return
		}
	}
	x.notes = append(x.notes, s)
}

// oblige records a proof obligation at the current state and then assumes it.
func (x *Exec) oblige(env *evalEnv, kind string, pos token.Pos, goal string, src string) {
	x.addObl(kind, "", pos, goal, src, nil, env.prefix)
	x.st.assume(goal)
}

func (x *Exec) siteName(kind string, pos token.Pos, prefix string) string {
	m := x.siteOrd[kind]
	if m == nil {
		m = map[string]int{}
		x.siteOrd[kind] = m
	}
	key := fmt.Sprintf("%s@%d", prefix, pos)
	ord, ok := m[key]
	if !ok {
		ord = len(m)
		m[key] = ord
	}
	x.siteVisits[kind+key]++
	name := fmt.Sprintf("%s#%d", kind, ord)
	if v := x.siteVisits[kind+key]; v > 1 {
		name += fmt.Sprintf(".%d", v)
	}
	return name
}

func (x *Exec) addObl(kind, fixedName string, pos token.Pos, goal, src string, props []string, prefix string) *Obligation {
	name := fixedName
	if name == "" {
		name = x.siteName(kind, pos, prefix)
	}
	if goal == "true" {
		// trivially discharged; still counted
	}
	o := &Obligation{
		Func:  x.unitName,
		Name:  x.unitName + "/" + name,
		Kind:  kind,
		Props: props,
		PC:    append([]string(nil), x.st.pc...),
		Goal:  goal,
		Src:   src,
		Pos:   posStr(x.v.fset, pos),
	}
	x.obls = append(x.obls, o)
	return o
}

// ---------- spec evaluation ----------

func (x *Exec) spec(env *evalEnv, n SpecNode) string {
	x.inSpec++
	defer func() { x.inSpec-- }()
	switch n := n.(type) {
	case *SQuant:
		e2 := *env
		e2.bound = map[string]Val{}
		for k, v := range env.bound {
			e2.bound[k] = v
		}
		var bs []string
		var guards []string
		for _, b := range n.Vars {
			t := x.resolveType(env, b.Type)
			x.qcount++
			nm := fmt.Sprintf("%s!q%d", b.Name, x.qcount)
			e2.bound[b.Name] = Val{nm, t}
			bs = append(bs, fmt.Sprintf("(%s %s)", nm, x.ctx.Sort(t)))
			if isUnsigned(t) {
				guards = append(guards, "(>= "+nm+" 0)")
			}
		}
		body := x.spec(&e2, n.Body)
		q := "exists"
		if n.Forall {
			q = "forall"
			body = implies(and(guards...), body)
		} else {
			body = and(append(guards, body)...)
		}
		if len(n.Trig) > 0 {
			var pats []string
			for _, t := range n.Trig {
				var terms []string
				for _, part := range splitCommaTop(t) {
					tn, err := parseSpec(strings.TrimSpace(part))
					if err != nil {
						panic(evalError{"bad trigger " + part + ": " + err.Error()})
					}
					terms = append(terms, x.spec(&e2, tn))
				}
				pats = append(pats, ":pattern ("+strings.Join(terms, " ")+")")
			}
			return fmt.Sprintf("(%s (%s) (! %s %s))", q, strings.Join(bs, " "), body, strings.Join(pats, " "))
		}
		return fmt.Sprintf("(%s (%s) %s)", q, strings.Join(bs, " "), body)
	case *SImp:
		return "(=> " + x.spec(env, n.A) + " " + x.spec(env, n.B) + ")"
	case *SIff:
		return "(= " + x.spec(env, n.A) + " " + x.spec(env, n.B) + ")"
	case *SGo:
		e2 := *env
		e2.spec = true
		e2.info = nil
		if len(n.Subs) > 0 {
			e2.subs = map[string]SpecNode{}
			for k, v := range env.subs {
				e2.subs[k] = v
			}
			for k, v := range n.Subs {
				e2.subs[k] = v
			}
		}
		v := x.expr(&e2, n.E)
		return v.S
	}
	panic(evalError{"bad spec node"})
}

func (x *Exec) parseClause(cl *Clause) SpecNode {
	if cl.Node == nil {
		n, err := parseSpec(cl.Text)
		if err != nil {
			panic(evalError{fmt.Sprintf("%s:%d: BINDING: %v", cl.File, cl.Line, err)})
		}
		cl.Node = n
	}
	return cl.Node
}

// specCall handles calls inside spec expressions
func (x *Exec) specCall(env *evalEnv, n *ast.CallExpr) (Val, bool) {
	id, isId := n.Fun.(*ast.Ident)
	if !isId {
		// pkg.def(...) : a spec-language definition of an imported package
		if sel, ok := n.Fun.(*ast.SelectorExpr); ok {
			if pid, ok := sel.X.(*ast.Ident); ok {
				if _, bound := env.bound[pid.Name]; !bound {
					if pn, ok := x.lookupObj(env, pid).(*types.PkgName); ok && x.v.cs.Defs != nil {
						if _, ok := x.v.cs.Defs[pn.Imported().Path()+"::"+sel.Sel.Name]; ok {
							e2 := *env
							e2.pkg = pn.Imported()
							// arguments are evaluated in the caller's environment
							var args []ast.Expr
							e2.bound = map[string]Val{}
							for k, v := range env.bound {
								e2.bound[k] = v
							}
							for i, a := range n.Args {
								nm := fmt.Sprintf("arg__%d", i)
								e2.bound[nm] = x.expr(env, a)
								args = append(args, ast.NewIdent(nm))
							}
							return x.specCall(&e2, &ast.CallExpr{Fun: ast.NewIdent(sel.Sel.Name), Args: args})
						}
					}
				}
			}
		}
		return Val{}, false
	}
	switch id.Name {
	case "old":
		if env.old == nil {
			x.fail(n.Pos(), "old() not available here")
		}
		saved := x.st
		x.st = env.old
		defer func() { x.st = saved }()
		return x.expr(env, n.Args[0]), true
	case "at_head":
		if x.loopHead == nil {
			x.fail(n.Pos(), "at_head() only in end_of_body clauses")
		}
		saved := x.st
		x.st = x.loopHead
		defer func() { x.st = saved }()
		return x.expr(env, n.Args[0]), true
	case "before":
		if x.loopPre == nil {
			x.fail(n.Pos(), "before() only in loop clauses")
		}
		saved := x.st
		x.st = x.loopPre
		defer func() { x.st = saved }()
		return x.expr(env, n.Args[0]), true
	case "has":
		m := x.expr(env, n.Args[0])
		mt, ok := m.Ty.Underlying().(*types.Map)
		if !ok {
			x.fail(n.Pos(), "has() on non-map")
		}
		k := x.convertTo(x.expr(env, n.Args[1]), mt.Key())
		return Val{x.mapHas(m, k), tBool}, true
	case "card":
		m := x.expr(env, n.Args[0])
		return Val{fmt.Sprintf("(card_%s %s)", x.ctx.Sort(m.Ty), x.ctx.mpDom(m)), tInt}, true
	case "fresh":
		p := x.expr(env, n.Args[0])
		if env.old == nil {
			x.fail(n.Pos(), "fresh() needs an old state")
		}
		return Val{and("(>= "+p.S+" "+env.old.alloc+")", "(< "+p.S+" "+x.st.alloc+")"), tBool}, true
	case "allocated":
		p := x.expr(env, n.Args[0])
		return Val{and("(< 0 "+p.S+")", "(< "+p.S+" "+x.st.alloc+")"), tBool}, true
	case "ite":
		c := x.expr(env, n.Args[0])
		a := x.expr(env, n.Args[1])
		b := x.expr(env, n.Args[2])
		ty := a.Ty
		if isUntyped(ty) || isNilType(ty) {
			ty = b.Ty
		}
		return Val{ite(c.S, a.S, b.S), ty}, true
	case "bit32":
		a := x.expr(env, n.Args[0])
		return Val{"(bit32 " + a.S + ")", tBool}, true
	case "low32":
		a := x.expr(env, n.Args[0])
		return Val{"(low32 " + a.S + ")", tInt}, true
	case "isnil":
		a := x.expr(env, n.Args[0])
		return Val{x.eqVals(a, Val{"0", types.Typ[types.UntypedNil]}), tBool}, true
	case "unchanged":
		// unchanged(T): every field of every object of struct type T that existed at function entry has its entry value
		if env.old == nil {
			x.fail(n.Pos(), "unchanged() needs an old state")
		}
		t := x.resolveType(env, n.Args[0])
		st, ok := structOf(t)
		if !ok {
			x.fail(n.Pos(), "unchanged(): %s is not a struct type", t)
		}
		var cs []string
		for i := 0; i < st.NumFields(); i++ {
			f := st.Field(i)
			h1, h0 := x.heapOf(x.st, f), x.heapOf(env.old, f)
			if h1 == h0 {
				continue
			}
			x.qcount++
			r := fmt.Sprintf("r!q%d", x.qcount)
			cs = append(cs, fmt.Sprintf("(forall ((%s Int)) (! (=> (and (< 0 %s) (< %s %s)) (= (select %s %s) (select %s %s))) :pattern ((select %s %s))))", r, r, r, env.old.alloc, h1, r, h0, r, h1, r))
		}
		return Val{and(cs...), tBool}, true
	case "rune_count":
		x.ctx.decl("fun:rune_count", "(declare-fun rune_count (Str) Int)")
		a := x.expr(env, n.Args[0])
		return Val{"(rune_count " + a.S + ")", tInt}, true
	case "rune_at":
		a := x.expr(env, n.Args[0])
		i := x.expr(env, n.Args[1])
		return Val{"(runeAt " + a.S + " " + i.S + ")", types.Typ[types.Rune]}, true
	case "rune_width":
		// width in bytes of the rune utf8.DecodeRuneInString finds at byte offset i of s (the decoder's second result)
		a := x.expr(env, n.Args[0])
		i := x.expr(env, n.Args[1])
		return Val{"(runeW " + a.S + " " + i.S + ")", tInt}, true
	case "printed_fmt":
		x.ctx.decl("fun:printed_fmt", "(declare-fun printed_fmt (Int) Str)")
		a := x.expr(env, n.Args[0])
		return Val{"(printed_fmt " + a.S + ")", tString}, true
	case "printed_int", "printed_str":
		x.ctx.decl("fun:printed_int", "(declare-fun printed_int (Int Int) Int)")
		x.ctx.decl("fun:printed_str", "(declare-fun printed_str (Int Int) Str)")
		a := x.expr(env, n.Args[0])
		k := x.expr(env, n.Args[1])
		if id.Name == "printed_int" {
			return Val{"(printed_int " + a.S + " " + k.S + ")", tInt}, true
		}
		return Val{"(printed_str " + a.S + " " + k.S + ")", tString}, true
	case "backing":
		a := x.expr(env, n.Args[0])
		if _, ok := a.Ty.Underlying().(*types.Slice); !ok {
			x.fail(n.Pos(), "backing() of a non-slice")
		}
		return Val{x.ctx.slBid(a), tInt}, true
	case "xlog_mapss":
		mt := types.NewMap(tString, tString)
		x.ctx.Sort(mt)
		x.ctx.decl("fun:xlog_mapss", "(declare-fun xlog_mapss (Int Int) Mp_Str_Str)")
		a := x.expr(env, n.Args[0])
		k := x.expr(env, n.Args[1])
		return Val{"(xlog_mapss " + a.S + " " + k.S + ")", mt}, true
	case "xlog_fn", "xlog_recv":
		x.ctx.decl("fun:xlog_fn", "(declare-fun xlog_fn (Int) Str)")
		x.ctx.decl("fun:xlog_recv", "(declare-fun xlog_recv (Int) Int)")
		a := x.expr(env, n.Args[0])
		if id.Name == "xlog_fn" {
			return Val{"(xlog_fn " + a.S + ")", tString}, true
		}
		return Val{"(xlog_recv " + a.S + ")", tInt}, true
	case "xlog_int", "xlog_str":
		x.ctx.decl("fun:xlog_int", "(declare-fun xlog_int (Int Int) Int)")
		x.ctx.decl("fun:xlog_str", "(declare-fun xlog_str (Int Int) Str)")
		a := x.expr(env, n.Args[0])
		k := x.expr(env, n.Args[1])
		if id.Name == "xlog_int" {
			return Val{"(xlog_int " + a.S + " " + k.S + ")", tInt}, true
		}
		return Val{"(xlog_str " + a.S + " " + k.S + ")", tString}, true
	case "atoi":
		a := x.expr(env, n.Args[0])
		x.ctx.decl("fun:atoi", "(declare-fun atoi (Str) Int)")
		return Val{"(atoi " + a.S + ")", tInt}, true
	case "typeis":
		a := x.expr(env, n.Args[0])
		t := x.resolveType(env, n.Args[1])
		return Val{eq("(itag "+a.S+")", fmt.Sprint(x.ctx.TypeTag(t))), tBool}, true
	case "iface_val":
		a := x.expr(env, n.Args[0])
		return Val{"(ival " + a.S + ")", tInt}, true
	case "is_int":
		a := x.expr(env, n.Args[0])
		return Val{eq("(itag "+a.S+")", fmt.Sprint(x.ctx.TypeTag(tInt))), tBool}, true
	case "as_int":
		a := x.expr(env, n.Args[0])
		return Val{"(ival " + a.S + ")", tInt}, true
	case "perm", "perminv":
		g, ok := x.st.ghost["sortperm"]
		if !ok {
			x.fail(n.Pos(), "perm()/perminv() need a preceding sort.SliceStable")
		}
		a := x.expr(env, n.Args[0])
		fn := g.S
		if id.Name == "perminv" {
			fn = strings.Replace(fn, "perm!", "perminv!", 1)
		}
		return Val{"(" + fn + " " + a.S + ")", tInt}, true
	case "seen":
		// seen(k): ghost set of the innermost enclosing map-range loop
		if v, ok := x.st.ghost["seen"]; ok {
			k := x.expr(env, n.Args[0])
			return Val{"(select " + v.S + " " + k.S + ")", tBool}, true
		}
		x.fail(n.Pos(), "seen() outside a map range loop")
	}
	// spec-language definitions: //@ def name(params) = body
	if env.pkg != nil && x.v.cs.Defs != nil {
		if d, ok := x.v.cs.Defs[env.pkg.Path()+"::"+id.Name]; ok {
			if d.Node == nil {
				nd, err := parseSpec(d.Text)
				if err != nil {
					panic(evalError{fmt.Sprintf("%s:%d: BINDING: %v", d.File, d.Line, err)})
				}
				d.Node = nd
			}
			fl, err := parseExprString("func(" + d.Params + "){}")
			if err != nil {
				panic(evalError{fmt.Sprintf("%s:%d: BINDING: bad def params", d.File, d.Line)})
			}
			e2 := &evalEnv{pkg: env.pkg, spec: true, bound: map[string]Val{}, old: env.old}
			k := 0
			for _, f := range fl.(*ast.FuncLit).Type.Params.List {
				t := x.resolveType(e2, f.Type)
				for _, nm := range f.Names {
					if k >= len(n.Args) {
						x.fail(n.Pos(), "BINDING: def %s: too few arguments", d.Name)
					}
					a := x.expr(env, n.Args[k])
					e2.bound[nm.Name] = Val{x.convertTo(a, t).S, t}
					k++
				}
			}
			if g, ok := d.Node.(*SGo); ok {
				e3 := *e2
				e3.subs = g.Subs
				v := x.expr(&e3, g.E)
				return v, true
			}
			return Val{x.spec(e2, d.Node), tBool}, true
		}
	}
	return Val{}, false
}

// specFuncCall expands / declares spec functions (functions in contract files)
func (x *Exec) specFuncCall(env *evalEnv, n *ast.CallExpr, fn *types.Func) Val {
	sig := fn.Type().(*types.Signature)
	unit := x.v.byObj[fn]
	var args []Val
	external := fn.Pkg() != nil && !x.v.isRepoPkg(fn.Pkg().Path())
	for i, a := range n.Args {
		v := x.expr(env, a)
		if i < sig.Params().Len() && !external && !(sig.Variadic() && i >= sig.Params().Len()-1) {
			v = x.convertTo(v, sig.Params().At(i).Type())
		}
		args = append(args, v)
	}
	if fn.Pkg() != nil && !x.v.isRepoPkg(fn.Pkg().Path()) {
		// pure library function used in a spec: the same uninterpreted symbol the code model uses
		name := fmt.Sprintf("%s_%s_0", fn.Pkg().Name(), fn.Name())
		if fn.Pkg().Path() == "fmt" {
			name = "fmt_" + fn.Name()
		}
		if t, ok := x.pureExt(name, args, sig.Results().At(0).Type()); ok {
			return Val{t, sig.Results().At(0).Type()}
		}
		x.fail(n.Pos(), "UNSUPPORTED external call %s in spec", fn.FullName())
	}
	if sig.Results().Len() != 1 {
		x.fail(n.Pos(), "spec function %s must have one result", fn.Name())
	}
	rt := sig.Results().At(0).Type()
	if unit != nil && unit.Decl.Body != nil && !x.expanding[fn] && !isSpecStub(unit.Decl) {
		// macro expansion: body is a chain of "if c { return e }" ending in "return e"
		e2 := &evalEnv{pkg: unit.Pkg.Types, bound: map[string]Val{}, old: env.old, spec: true, prefix: env.prefix}
		for i := 0; i < sig.Params().Len(); i++ {
			e2.bound[sig.Params().At(i).Name()] = args[i]
		}
		x.expanding[fn] = true
		defer delete(x.expanding, fn)
		if t, ok := x.specBody(e2, unit.Decl.Body.List); ok {
			return Val{t, rt}
		}
		x.fail(n.Pos(), "UNSUPPORTED spec function body shape: %s", fn.Name())
	}
	// uninterpreted (body-less or recursive)
	name := "sf_" + fn.Name()
	var ss []string
	for i := 0; i < sig.Params().Len(); i++ {
		ss = append(ss, x.ctx.Sort(sig.Params().At(i).Type()))
	}
	x.ctx.decl("fun:"+name, fmt.Sprintf("(declare-fun %s (%s) %s)", name, strings.Join(ss, " "), x.ctx.Sort(rt)))
	x.usedSpecFns[fn.Name()] = true
	var as []string
	for _, a := range args {
		as = append(as, a.S)
	}
	if len(as) == 0 {
		return Val{name, rt}
	}
	return Val{"(" + name + " " + strings.Join(as, " ") + ")", rt}
}

// specBody turns a body made of if / return statements into a term (general fall-through semantics)
func (x *Exec) specBody(env *evalEnv, stmts []ast.Stmt) (string, bool) {
	return x.retTerm(env, stmts, "", false)
}

// retTerm: value returned by executing stmts; rest is the value if they fall through (hasRest false: no fall-through allowed)
func (x *Exec) retTerm(env *evalEnv, stmts []ast.Stmt, rest string, hasRest bool) (string, bool) {
	if len(stmts) == 0 {
		return rest, hasRest
	}
	switch s := stmts[0].(type) {
	case *ast.ReturnStmt:
		if len(s.Results) != 1 {
			return "", false
		}
		return x.expr(env, s.Results[0]).S, true
	case *ast.AssignStmt:
		// x := e  /  x = e  with a single identifier: substitution
		if len(s.Lhs) == 1 && len(s.Rhs) == 1 {
			if id, ok := s.Lhs[0].(*ast.Ident); ok && (s.Tok == token.DEFINE || s.Tok == token.ASSIGN) {
				v := x.expr(env, s.Rhs[0])
				e2 := env.withBound(id.Name, v)
				return x.retTerm(e2, stmts[1:], rest, hasRest)
			}
		}
		return "", false
	case *ast.BlockStmt:
		after, ok := x.retTerm(env, stmts[1:], rest, hasRest)
		return x.retTerm(env, s.List, after, ok)
	case *ast.IfStmt:
		if s.Init != nil {
			return "", false
		}
		after, okAfter := x.retTerm(env, stmts[1:], rest, hasRest)
		c := x.expr(env, s.Cond)
		a, ok := x.retTerm(env, s.Body.List, after, okAfter)
		if !ok {
			return "", false
		}
		b, okb := after, okAfter
		if s.Else != nil {
			b, okb = x.retTerm(env, []ast.Stmt{s.Else}, after, okAfter)
		}
		if !okb {
			return "", false
		}
		return ite(c.S, a, b), true
	}
	return "", false
}

// isSpecStub: a specification function without definition, written  func f(...) T { panic("spec") }
func isSpecStub(fd *ast.FuncDecl) bool {
	if fd.Body == nil {
		return true
	}
	if len(fd.Body.List) != 1 {
		return false
	}
	es, ok := fd.Body.List[0].(*ast.ExprStmt)
	if !ok {
		return false
	}
	call, ok := es.X.(*ast.CallExpr)
	if !ok {
		return false
	}
	id, ok := call.Fun.(*ast.Ident)
	return ok && id.Name == "panic"
}
