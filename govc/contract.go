package main

import (
	"fmt"
	"go/ast"
	"go/parser"
	"regexp"
	"strconv"
	"strings"
)

// ---------- contract files ----------

type Clause struct {
	Kind  string   // requires ensures invariant decreases modifies panics_when may_panic assert axiom lemma ...
	Props []string // property tags; empty = all props of the function
	Loop  int      // for loop clauses
	Text  string
	Node  SpecNode // parsed (for expression clauses)
	File  string
	Line  int
	Label string // for assert@label / named axioms
}

type Contract struct {
	Pkg      string // package path
	Key      string // "(*LALR1).ResolveConflict" or "PackTable"
	Props    []string
	Results  []string
	Params   []string
	TaggedOnly []string // properties this function serves only through clauses tagged with them
	Clauses  []*Clause
	File     string
	Line     int
	Trusted  bool // "assumed" contract: not verified, only used at call sites
	Inline   bool
	Opaque   bool
	Bounded  string
	Template string // for rendered-template functions: which rendering(s)
}

type Lemma struct {
	Template  string
	Pkg       string
	Name      string
	Params    string // "st []StateSym, sp int"
	Induction string
	Props     []string
	Clauses   []*Clause
	File      string
	Line      int
}

type Axiom struct {
	Template string
	Pkg   string
	Name  string
	Props []string
	Text  string
	Node  SpecNode
	File  string
	Line  int
	Note  string
}

type Def struct {
	Template                string
	Pkg, Name, Params, Text string
	Node                    SpecNode
	File                    string
	Line                    int
}

type GhostVar struct {
	Pkg, Name, Type, Template string
}

type ContractSet struct {
	Ghosts []*GhostVar
	Renames map[string][][2]string // tag -> identifier renames for clause texts
	KeyRenames map[string][][2]string
	Defs   map[string]*Def
	Funcs  map[string]*Contract // key pkgpath + "::" + Key
	Order  []string
	Lemmas []*Lemma
	Axioms []*Axiom
}

var clauseRe = regexp.MustCompile(`^(\w+)(?:@(\w+))?(?:\s*\[([A-Z0-9, ]+)\])?\s*(.*)$`)
var loopRe = regexp.MustCompile(`^loop\s+(\d+)\s*:\s*(.*)$`)

func isKeyword(w string) bool {
	switch w {
	case "terminates_assumed", "recursion_assumed", "end_of_body", "assumes", "ghostvar", "props_tagged_only", "section", "rename", "renamekey", "params", "def", "func", "props", "results", "requires", "ensures", "modifies", "loop", "panics_when", "may_panic", "assert", "assume",
		"axiom", "lemma", "trusted", "inline", "ghost", "decreases", "allocates", "induction", "note", "end", "use", "opaque", "bounded", "template", "havoc", "order_independent", "order_assumed", "order_exempt", "order_only", "effect", "emits", "libarg", "after", "invariant", "before_stmt", "after_stmt", "effects_only":
		return true
	}
	return false
}

// parseContracts reads "//@" comment lines of one file.
func (cs *ContractSet) parseFile(pkgPath, fileName string, f *ast.File, lineOf func(p ast.Node) int) error {
	var cur *Contract
	var curLemma *Lemma
	var last *Clause
	section := ""
	finish := func() { last = nil }
	for _, cg := range f.Comments {
		for _, cm := range cg.List {
			if strings.HasPrefix(cm.Text, "// @") && strings.HasSuffix(fileName, "contracts_verif.go") {
				// gofmt rewrites "//@" to "// @" in doc comments: the clause would silently disappear
				return fmt.Errorf("%s:%d: BINDING: contract comment damaged by gofmt (\"// @\" instead of \"//@\"): separate it from the declaration below by a blank line", fileName, lineOf(cm))
			}
			if !strings.HasPrefix(cm.Text, "//@") {
				continue
			}
			line := lineOf(cm)
			raw := cm.Text[3:]
			txt := strings.TrimSpace(raw)
			if txt == "" || strings.HasPrefix(txt, "//") {
				continue
			}
			first := txt
			if i := strings.IndexAny(txt, " \t:@["); i > 0 {
				first = txt[:i]
			}
			if !isKeyword(first) {
				// continuation
				if last == nil {
					return fmt.Errorf("%s:%d: continuation without clause: %s", fileName, line, txt)
				}
				last.Text += " " + txt
				continue
			}
			finish()
			switch first {
			case "ghostvar":
				f := strings.Fields(txt)
				if len(f) != 3 {
					return fmt.Errorf("%s:%d: ghostvar <name> <type>", fileName, line)
				}
				cs.Ghosts = append(cs.Ghosts, &GhostVar{Pkg: pkgPath, Name: f[1], Type: f[2], Template: section})
				continue
			case "section":
				section = strings.TrimSpace(txt[7:])
				cur, curLemma = nil, nil
				continue
			case "rename", "renamekey":
				f := strings.Fields(txt)
				if len(f) < 3 {
					return fmt.Errorf("%s:%d: bad %s", fileName, line, first)
				}
				for _, kv := range f[2:] {
					i := strings.Index(kv, "=")
					if i < 0 {
						return fmt.Errorf("%s:%d: bad %s item %q", fileName, line, first, kv)
					}
					if first == "rename" {
						if cs.Renames == nil {
							cs.Renames = map[string][][2]string{}
						}
						cs.Renames[f[1]] = append(cs.Renames[f[1]], [2]string{kv[:i], kv[i+1:]})
					} else {
						if cs.KeyRenames == nil {
							cs.KeyRenames = map[string][][2]string{}
						}
						cs.KeyRenames[f[1]] = append(cs.KeyRenames[f[1]], [2]string{kv[:i], kv[i+1:]})
					}
				}
				continue
			case "func":
				key := strings.TrimSpace(txt[4:])
				cur = &Contract{Pkg: pkgPath, Key: key, File: fileName, Line: line, Template: section}
				curLemma = nil
				k := pkgPath + "::" + key
				if section != "" {
					k += "@" + section
				}
				if _, dup := cs.Funcs[k]; dup {
					return fmt.Errorf("%s:%d: duplicate contract for %s", fileName, line, key)
				}
				cs.Funcs[k] = cur
				cs.Order = append(cs.Order, k)
				continue
			case "def":
				// def name(params) = body
				rest := strings.TrimSpace(txt[3:])
				i := strings.Index(rest, "(")
				j := strings.Index(rest, ") =")
				if i < 0 || j < i {
					return fmt.Errorf("%s:%d: bad def header", fileName, line)
				}
				d := &Def{Template: section, Pkg: pkgPath, Name: strings.TrimSpace(rest[:i]), Params: rest[i+1 : j], File: fileName, Line: line}
				if cs.Defs == nil {
					cs.Defs = map[string]*Def{}
				}
				dk := pkgPath + "::" + d.Name
				if section != "" {
					dk += "@" + section
				}
				cs.Defs[dk] = d
				pc := &Clause{Kind: "deftext", Text: strings.TrimSpace(rest[j+3:])}
				last = pc
				defer func() { d.Text = pc.Text }()
				cur, curLemma = nil, nil
				continue
			case "lemma":
				// lemma Name(params)
				rest := strings.TrimSpace(txt[5:])
				i := strings.Index(rest, "(")
				j := strings.LastIndex(rest, ")")
				if i < 0 || j < i {
					return fmt.Errorf("%s:%d: bad lemma header", fileName, line)
				}
				curLemma = &Lemma{Template: section, Pkg: pkgPath, Name: strings.TrimSpace(rest[:i]), Params: rest[i+1 : j], File: fileName, Line: line}
				cs.Lemmas = append(cs.Lemmas, curLemma)
				cur = nil
				continue
			case "axiom":
				rest := strings.TrimSpace(txt[5:])
				m := regexp.MustCompile(`^(\w+)(?:\s*\[([A-Z0-9, ]+)\])?\s*:\s*(.*)$`).FindStringSubmatch(rest)
				if m == nil {
					return fmt.Errorf("%s:%d: bad axiom", fileName, line)
				}
				ax := &Axiom{Template: section, Pkg: pkgPath, Name: m[1], Text: m[3], File: fileName, Line: line}
				if m[2] != "" {
					ax.Props = splitList(m[2])
				}
				cs.Axioms = append(cs.Axioms, ax)
				// continuation lines append to ax.Text through a pseudo clause
				pc := &Clause{Kind: "axiomtext"}
				pc.Text = ax.Text
				last = pc
				axp := ax
				defer func() { axp.Text = pc.Text }()
				continue
			}
			if cur == nil && curLemma == nil {
				return fmt.Errorf("%s:%d: clause outside func/lemma block: %s", fileName, line, txt)
			}
			cl := &Clause{File: fileName, Line: line}
			body := txt
			if m := loopRe.FindStringSubmatch(txt); m != nil {
				cl.Loop, _ = strconv.Atoi(m[1])
				body = m[2]
				cl.Kind = "loop:"
			}
			m := clauseRe.FindStringSubmatch(body)
			if m == nil {
				return fmt.Errorf("%s:%d: cannot parse clause %q", fileName, line, txt)
			}
			cl.Kind += m[1]
			cl.Label = m[2]
			if m[3] != "" {
				cl.Props = splitList(m[3])
			}
			cl.Text = strings.TrimSpace(m[4])
			if cur != nil {
				switch cl.Kind {
				case "props":
					cur.Props = splitList(cl.Text)
					continue
				case "results":
					cur.Results = splitList(cl.Text)
					continue
				case "trusted":
					cur.Trusted = true
					cl.Kind = "note"
				case "inline":
					cur.Inline = true
					continue
				case "opaque":
					cur.Opaque = true
					continue
				case "params":
					cur.Params = splitList(cl.Text)
					continue
				case "props_tagged_only":
					cur.TaggedOnly = splitList(cl.Text)
					continue
				}
				cur.Clauses = append(cur.Clauses, cl)
			} else {
				switch cl.Kind {
				case "props":
					curLemma.Props = splitList(cl.Text)
					continue
				case "induction":
					curLemma.Induction = cl.Text
					continue
				}
				curLemma.Clauses = append(curLemma.Clauses, cl)
			}
			last = cl
		}
	}
	return nil
}

func splitList(s string) []string {
	var out []string
	for _, p := range strings.FieldsFunc(s, func(r rune) bool { return r == ',' || r == ' ' || r == '\t' }) {
		if p != "" {
			out = append(out, p)
		}
	}
	return out
}

// ---------- spec expression language ----------

type SpecNode interface{}

type SBinder struct {
	Name string
	Type ast.Expr
}
type SQuant struct {
	Forall bool
	Vars   []SBinder
	Body   SpecNode
	Trig   []string
}
type SImp struct{ A, B SpecNode }
type SIff struct{ A, B SpecNode }
type SGo struct {
	E    ast.Expr
	Subs map[string]SpecNode
	Src  string
}

// depth-aware scanning helpers
func scanDepth0(s string, f func(i int) bool) {
	depth := 0
	inStr := byte(0)
	for i := 0; i < len(s); i++ {
		ch := s[i]
		if inStr != 0 {
			if ch == '\\' {
				i++
				continue
			}
			if ch == inStr {
				inStr = 0
			}
			continue
		}
		switch ch {
		case '"', '\'', '`':
			inStr = ch
		case '(', '[', '{':
			depth++
		case ')', ']', '}':
			depth--
		default:
			if depth == 0 {
				if f(i) {
					return
				}
			}
		}
	}
}

func findDepth0(s, op string) int {
	res := -1
	scanDepth0(s, func(i int) bool {
		if strings.HasPrefix(s[i:], op) {
			if op == "==>" && i > 0 && s[i-1] == '<' {
				return false
			}
			res = i
			return true
		}
		return false
	})
	return res
}

func needsSpec(s string) bool {
	return strings.Contains(s, "==>") || strings.Contains(s, "forall ") || strings.Contains(s, "exists ")
}

func parseSpec(s string) (SpecNode, error) {
	s = strings.TrimSpace(s)
	if strings.HasPrefix(s, "forall ") || strings.HasPrefix(s, "exists ") {
		i := findDepth0(s, "::")
		if i < 0 {
			return nil, fmt.Errorf("quantifier without '::' in %q", s)
		}
		q := &SQuant{Forall: strings.HasPrefix(s, "forall ")}
		binders := strings.TrimSpace(s[7:i])
		// groups separated by ',' where a group is "a, b T": parse as Go parameter list
		fl, err := parser.ParseExpr("func(" + binders + "){}")
		if err != nil {
			return nil, fmt.Errorf("bad binders %q: %v", binders, err)
		}
		for _, fld := range fl.(*ast.FuncLit).Type.Params.List {
			for _, n := range fld.Names {
				q.Vars = append(q.Vars, SBinder{Name: n.Name, Type: fld.Type})
			}
		}
		body := strings.TrimSpace(s[i+2:])
		// optional triggers: forall x T :: {term; term} body - each term is one alternative single-term pattern
		if strings.HasPrefix(body, "{") {
			d, j := 0, 0
			for ; j < len(body); j++ {
				if body[j] == '{' {
					d++
				} else if body[j] == '}' {
					d--
					if d == 0 {
						break
					}
				}
			}
			if j >= len(body) {
				return nil, fmt.Errorf("unterminated trigger group in %q", s)
			}
			for _, t := range strings.Split(body[1:j], ";") {
				if t = strings.TrimSpace(t); t != "" {
					q.Trig = append(q.Trig, t)
				}
			}
			body = body[j+1:]
		}
		b, err := parseSpec(body)
		if err != nil {
			return nil, err
		}
		q.Body = b
		return q, nil
	}
	if i := findDepth0(s, "<==>"); i >= 0 {
		a, err := parseSpec(s[:i])
		if err != nil {
			return nil, err
		}
		b, err := parseSpec(s[i+4:])
		if err != nil {
			return nil, err
		}
		return &SIff{a, b}, nil
	}
	if i := findDepth0(s, "==>"); i >= 0 {
		a, err := parseSpec(s[:i])
		if err != nil {
			return nil, err
		}
		b, err := parseSpec(s[i+3:])
		if err != nil {
			return nil, err
		}
		return &SImp{a, b}, nil
	}
	g := &SGo{Subs: map[string]SpecNode{}, Src: s}
	txt, err := replaceSubs(s, g)
	if err != nil {
		return nil, err
	}
	e, err := parser.ParseExpr(txt)
	if err != nil {
		return nil, fmt.Errorf("cannot parse %q: %v", txt, err)
	}
	g.E = e
	return g, nil
}

// replaceSubs replaces parenthesised groups that contain spec-only syntax by placeholders.
func replaceSubs(s string, g *SGo) (string, error) {
	if !needsSpec(s) {
		return s, nil
	}
	var out strings.Builder
	i := 0
	for i < len(s) {
		ch := s[i]
		if ch == '"' || ch == '`' || ch == '\'' {
			j := i + 1
			for j < len(s) && s[j] != ch {
				if s[j] == '\\' {
					j++
				}
				j++
			}
			out.WriteString(s[i:min(j+1, len(s))])
			i = j + 1
			continue
		}
		if ch == '(' {
			// find matching
			d := 0
			j := i
			for ; j < len(s); j++ {
				if s[j] == '(' {
					d++
				} else if s[j] == ')' {
					d--
					if d == 0 {
						break
					}
				}
			}
			if j >= len(s) {
				return "", fmt.Errorf("unbalanced parens in %q", s)
			}
			inner := s[i+1 : j]
			if needsSpec(inner) {
				t := strings.TrimSpace(inner)
				top := strings.HasPrefix(t, "forall ") || strings.HasPrefix(t, "exists ") || findDepth0(inner, "==>") >= 0 || findDepth0(inner, "<==>") >= 0
				if top {
					n, err := parseSpec(inner)
					if err != nil {
						return "", err
					}
					name := fmt.Sprintf("sub__%d", len(g.Subs))
					g.Subs[name] = n
					out.WriteString(name)
				} else {
					r, err := replaceSubs(inner, g)
					if err != nil {
						return "", err
					}
					out.WriteString("(" + r + ")")
				}
			} else {
				out.WriteString(s[i : j+1])
			}
			i = j + 1
			continue
		}
		out.WriteByte(ch)
		i++
	}
	return out.String(), nil
}

// instantiate template sections for a rendered package with the given tags
func tagsMatch(template string, tags map[string]bool) bool {
	if template == "" {
		return false
	}
	for _, t := range strings.Fields(template) {
		if !tags[t] {
			return false
		}
	}
	return true
}

func (cs *ContractSet) instantiate(builderPkg, targetPkg string, tags map[string]bool) {
	var rn, krn [][2]string
	for t := range tags {
		rn = append(rn, cs.Renames[t]...)
		krn = append(krn, cs.KeyRenames[t]...)
	}
	ren := func(s string) string {
		for _, kv := range rn {
			re := regexp.MustCompile(`(^|[^A-Za-z_0-9.])` + regexp.QuoteMeta(kv[0]) + `\b`)
			s = re.ReplaceAllString(s, "${1}"+kv[1])
		}
		return s
	}
	renKey := func(k string) string {
		for _, kv := range krn {
			if k == kv[0] {
				return kv[1]
			}
		}
		return k
	}
	for _, k := range append([]string(nil), cs.Order...) {
		c := cs.Funcs[k]
		if c.Pkg != builderPkg || !tagsMatch(c.Template, tags) {
			continue
		}
		n := *c
		n.Pkg = targetPkg
		n.Key = renKey(c.Key)
		n.Template = ""
		n.Clauses = nil
		for _, cl := range c.Clauses {
			c2 := *cl
			c2.Text = ren(cl.Text)
			c2.Node = nil
			n.Clauses = append(n.Clauses, &c2)
		}
		nk := targetPkg + "::" + n.Key
		cs.Funcs[nk] = &n
		cs.Order = append(cs.Order, nk)
	}
	for _, l := range append([]*Lemma(nil), cs.Lemmas...) {
		if l.Pkg != builderPkg || !tagsMatch(l.Template, tags) {
			continue
		}
		n := *l
		n.Pkg = targetPkg
		n.Template = ""
		n.Clauses = nil
		for _, cl := range l.Clauses {
			c2 := *cl
			c2.Text = ren(cl.Text)
			c2.Node = nil
			n.Clauses = append(n.Clauses, &c2)
		}
		cs.Lemmas = append(cs.Lemmas, &n)
	}
	for _, a := range append([]*Axiom(nil), cs.Axioms...) {
		if a.Pkg != builderPkg || !tagsMatch(a.Template, tags) {
			continue
		}
		n := *a
		n.Pkg = targetPkg
		n.Template = ""
		n.Text = ren(a.Text)
		n.Node = nil
		cs.Axioms = append(cs.Axioms, &n)
	}
	for _, g := range append([]*GhostVar(nil), cs.Ghosts...) {
		if g.Pkg == builderPkg && tagsMatch(g.Template, tags) {
			cs.Ghosts = append(cs.Ghosts, &GhostVar{Pkg: targetPkg, Name: g.Name, Type: g.Type})
		}
	}
	var defs []*Def
	for _, d := range cs.Defs {
		defs = append(defs, d)
	}
	for _, d := range defs {
		if d.Pkg != builderPkg || !tagsMatch(d.Template, tags) {
			continue
		}
		n := *d
		n.Pkg = targetPkg
		n.Template = ""
		n.Text = ren(d.Text)
		n.Node = nil
		cs.Defs[targetPkg+"::"+n.Name] = &n
	}
}
