package main

import (
	"fmt"
	"go/token"
	"go/types"
)

// verifyLemma proves a lemma (optionally by natural-number induction on one quantified variable)
func (v *Verifier) verifyLemma(lm *Lemma) (res *FuncResult) {
	name := "lemma." + lm.Name
	x := v.newExec(name)
	x.lemmasUsed = map[string]bool{}
	res = &FuncResult{Unit: name, Ctx: x.ctx}
	defer func() {
		if r := recover(); r != nil {
			if ee, ok := r.(evalError); ok {
				res.Err = ee.msg
				res.Obls = x.obls
				return
			}
			panic(r)
		}
	}()
	pkg := v.pkgs[lm.Pkg]
	cu := &FuncUnit{Pkg: pkg}
	st := &State{vars: map[types.Object]Val{}, heap: map[*types.Var]string{}, ghost: map[string]Val{}}
	st.alloc = x.ctx.Const("alloc$0", "Int")
	st.assume("(>= " + st.alloc + " 1)")
	x.st = st
	x.entry = st.clone()
	env := &evalEnv{pkg: pkg.Types, spec: true, bound: map[string]Val{}, old: x.entry}
	for _, p := range x.lemmaParams(cu, lm) {
		val := Val{x.ctx.Const("p_"+p.name, x.ctx.Sort(p.ty)), p.ty}
		env.bound[p.name] = val
		x.readFacts(val)
	}
	// uses (axioms / other lemmas)
	for _, cl := range lm.Clauses {
		if cl.Kind == "use" {
			for _, item := range splitCommaTop(cl.Text) {
				x.useItemEnv(cu, item, env, cl)
			}
		}
	}
	for _, cl := range lm.Clauses {
		if cl.Kind == "requires" {
			st.assume(x.spec(env, x.parseClause(cl)))
		}
	}
	x.vacuity("vacuity:requires", token.NoPos, "lemma hypotheses are satisfiable")
	k := 0
	for _, cl := range lm.Clauses {
		if cl.Kind != "ensures" {
			continue
		}
		n := x.parseClause(cl)
		q, isQ := n.(*SQuant)
		if lm.Induction == "" || !isQ || !q.Forall {
			g := x.spec(env, n)
			x.addObl("lemma", fmt.Sprintf("ensures#%d", k), token.NoPos, g, cl.Text, nil, "")
			k++
			continue
		}
		// induction on variable lm.Induction of the outer forall
		var rest []SBinder
		found := false
		for _, b := range q.Vars {
			if b.Name == lm.Induction {
				found = true
			} else {
				rest = append(rest, b)
			}
		}
		if !found {
			panic(evalError{fmt.Sprintf("%s:%d: BINDING: induction variable %s not bound by the outer forall", cl.File, cl.Line, lm.Induction)})
		}
		inst := func(term string) string {
			e2 := env.withBound(lm.Induction, Val{term, tInt})
			if len(rest) == 0 {
				return x.spec(e2, q.Body)
			}
			return x.spec(e2, &SQuant{Forall: true, Vars: rest, Body: q.Body})
		}
		x.addObl("lemma", fmt.Sprintf("ensures#%d.base", k), token.NoPos, inst("0"), cl.Text+"   [base "+lm.Induction+" = 0]", nil, "")
		d0 := x.ctx.Fresh(lm.Induction, "Int")
		saved := x.st
		s2 := x.st.clone()
		x.st = s2
		s2.assume("(>= " + d0 + " 0)")
		s2.assume(inst(d0))
		x.addObl("lemma", fmt.Sprintf("ensures#%d.step", k), token.NoPos, inst("(+ "+d0+" 1)"), cl.Text+"   [step "+lm.Induction+" -> "+lm.Induction+"+1]", nil, "")
		x.st = saved
		k++
	}
	res.Obls = x.obls
	res.Notes = x.notes
	for t := range x.trustedUsed {
		res.Trusted = append(res.Trusted, t)
	}
	return res
}

func (x *Exec) useItemEnv(cu *FuncUnit, item string, env *evalEnv, cl *Clause) {
	x.useItem(cu, item, env, cl)
}
