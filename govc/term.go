package main

import (
	"fmt"
	"go/ast"
	"go/types"
	"sort"
	"strings"
)

// termCheck: C13 accounting of termination for everything reachable from the generator entry points.
//   * a `range` loop over a slice, array, string or map terminates by construction (the ranged value is evaluated once);
//   * every other loop (for with a condition, for {}, backward goto) needs `loop N: decreases <measure>` in the function's
//     contract - the measure is then an SMT obligation of that function, discharged in this run - or an explicit
//     `loop N: terminates_assumed <reason>` (listed as an assumption);
//   * a function that can reach itself through calls needs `recursion_assumed <reason>`.
// A loop or a recursive function without either is a failed obligation.
func (v *Verifier) termCheck(rootKeys []string) (*FuncResult, []*FuncUnit) {
	res := &FuncResult{Unit: "C13 termination scan", Ctx: NewCtx()}
	var roots []*FuncUnit
	for _, k := range rootKeys {
		found := false
		for key, cu := range v.funcs {
			if strings.HasSuffix(key, "::"+k) && !strings.HasPrefix(cu.Pkg.PkgPath, "rendered/") {
				roots = append(roots, cu)
				found = true
			}
		}
		if !found {
			res.Err = "BINDING: C13 root function " + k + " not found"
			return res, nil
		}
	}
	reach := v.reachable(roots)
	sort.Slice(reach, func(i, j int) bool { return v.unitName(reach[i]) < v.unitName(reach[j]) })
	inReach := map[*FuncUnit]bool{}
	for _, cu := range reach {
		inReach[cu] = true
	}
	var needVerify []*FuncUnit
	nLoops, nRange, nMeasured, nAssumed := 0, 0, 0, 0
	for _, cu := range reach {
		if !v.isRepoPkg(cu.Pkg.PkgPath) || cu.Decl.Body == nil {
			continue
		}
		con := v.contractOf(cu)
		// recursion
		if v.reachesItself(cu) {
			ok := false
			if con != nil {
				for _, cl := range con.Clauses {
					if cl.Kind == "recursion_assumed" {
						ok = true
						res.Trusted = append(res.Trusted, v.unitName(cu)+": termination of the recursion assumed: "+cl.Text)
						nAssumed++
					}
				}
			}
			if !ok {
				res.Obls = append(res.Obls, v.synthObl(cu, "term:recursion", cu.Decl.Pos(), false, "recursive function reachable from the generator without a termination argument (recursion_assumed)"))
			}
		}
		x := v.newExec("scan")
		x.boxed = map[types.Object]bool{}
		fr := x.newFrame(cu, nil, false)
		hasMeasure := false
		var loops []ast.Node
		ast.Inspect(cu.Decl.Body, func(n ast.Node) bool {
			switch s := n.(type) {
			case *ast.FuncLit:
				return false
			case *ast.RangeStmt:
				nRange++
			case *ast.ForStmt:
				loops = append(loops, s)
			case *ast.LabeledStmt:
				if fr.backLbl[s.Label.Name] {
					loops = append(loops, s)
				}
			}
			return true
		})
		for _, l := range loops {
			nLoops++
			ord := fr.loopOrd[l]
			how := ""
			var clause *Clause
			if con != nil {
				for _, cl := range con.Clauses {
					if cl.Loop != ord {
						continue
					}
					switch cl.Kind {
					case "loop:decreases":
						how, clause = "measure", cl
					case "loop:terminates_assumed":
						if how == "" {
							how, clause = "assumed", cl
						}
					}
				}
			}
			name := fmt.Sprintf("term:loop%d", ord)
			switch how {
			case "measure":
				hasMeasure = true
				nMeasured++
				res.Obls = append(res.Obls, v.synthObl(cu, name, l.Pos(), true, "loop has a measure: decreases "+clause.Text+" (obligation dec"+fmt.Sprint(ord)+" of this function)"))
			case "assumed":
				nAssumed++
				res.Obls = append(res.Obls, v.synthObl(cu, name, l.Pos(), true, "terminates_assumed: "+clause.Text))
				res.Trusted = append(res.Trusted, v.unitName(cu)+fmt.Sprintf(" loop %d: termination assumed: %s", ord, clause.Text))
			default:
				res.Obls = append(res.Obls, v.synthObl(cu, name, l.Pos(), false, "loop (not a range loop) in code reachable from the generator without `decreases` measure or `terminates_assumed`"))
			}
		}
		if hasMeasure {
			needVerify = append(needVerify, cu)
		}
	}
	res.Notes = append(res.Notes, fmt.Sprintf("termination scan from %v: %d functions, %d range loops (terminate by construction), %d other loops: %d with a proved measure, %d assumed (listed)", rootKeys, len(reach), nRange, nLoops, nMeasured, nAssumed))
	return res, needVerify
}

// reachesItself: cu is on a cycle of the static call graph
func (v *Verifier) reachesItself(cu *FuncUnit) bool {
	seen := map[*FuncUnit]bool{}
	var visit func(c *FuncUnit) bool
	visit = func(c *FuncUnit) bool {
		if c == nil || c.Decl.Body == nil {
			return false
		}
		found := false
		info := c.Pkg.TypesInfo
		ast.Inspect(c.Decl.Body, func(n ast.Node) bool {
			if found {
				return false
			}
			call, ok := n.(*ast.CallExpr)
			if !ok {
				return true
			}
			x := &Exec{v: v}
			fn := x.calleeOf(info, call)
			if fn == nil {
				return true
			}
			t := v.byObj[fn]
			if t == nil {
				return true
			}
			if t == cu {
				found = true
				return false
			}
			if !seen[t] {
				seen[t] = true
				if visit(t) {
					found = true
					return false
				}
			}
			return true
		})
		return found
	}
	return visit(cu)
}
