package main

import (
	"unicode/utf8"
	"fmt"
	"go/types"
	"sort"
	"strings"
)

// Val is an SMT term together with the Go type it encodes.
type Val struct {
	S  string
	Ty types.Type
}

// Ctx collects sort/function declarations shared by all queries of one function under contract.
type Ctx struct {
	decls     []string // in dependency order
	declared  map[string]bool
	fresh     int
	strLits   map[string]string // literal -> const name
	strOrder  []string
	typeTags  map[string]int // type string -> tag for Iface
	tagOrder  []string
	funcTags  map[string]int
	axioms    []condAxiom // global axioms, included when one of their symbols is used
	structFld map[string][]*types.Var
}

type condAxiom struct {
	syms []string
	text string
}

func NewCtx() *Ctx {
	c := &Ctx{declared: map[string]bool{}, strLits: map[string]string{}, typeTags: map[string]int{}, funcTags: map[string]int{}, structFld: map[string][]*types.Var{}}
	c.decl("sort:Str", "(declare-sort Str 0)")
	c.decl("fun:strlen", "(declare-fun strlen (Str) Int)")
	c.decl("fun:byteAt", "(declare-fun byteAt (Str Int) Int)")
	c.decl("fun:runeAt", "(declare-fun runeAt (Str Int) Int)")
	c.decl("fun:runeW", "(declare-fun runeW (Str Int) Int)")
	c.decl("fun:str_concat", "(declare-fun str_concat (Str Str) Str)")
	c.decl("fun:substr", "(declare-fun substr (Str Int Int) Str)")
	c.decl("fun:str_of_int", "(declare-fun str_of_int (Int) Str)")
	c.decl("fun:has_prefix", "(declare-fun has_prefix (Str Str) Bool)")
	c.decl("dt:Iface", "(declare-datatypes ((Iface 0)) (((mk_iface (itag Int) (ival Int)))))")
	c.decl("fun:godiv", "(define-fun godiv ((a Int) (b Int)) Int (ite (>= a 0) (ite (> b 0) (div a b) (- (div a (- b)))) (ite (> b 0) (- (div (- a) b)) (div (- a) (- b)))))")
	c.decl("fun:gomod", "(define-fun gomod ((a Int) (b Int)) Int (- a (* b (godiv a b))))")
	c.decl("fun:bit32", "(declare-fun bit32 (Int) Bool)")  // x & (1<<32) != 0
	c.decl("fun:low32", "(declare-fun low32 (Int) Int)")   // x &^ (1<<32)
	c.decl("fun:set32", "(declare-fun set32 (Int) Int)")   // x | (1<<32)
	c.axioms = append(c.axioms,
		condAxiom{[]string{"(strlen "}, "(forall ((s Str)) (! (>= (strlen s) 0) :pattern ((strlen s))))"},
		condAxiom{[]string{"(has_prefix "}, "(forall ((s Str) (p Str)) (! (=> (has_prefix s p) (>= (strlen s) (strlen p))) :pattern ((has_prefix s p))))"},
		condAxiom{[]string{"(str_concat "}, "(forall ((a Str) (b Str)) (! (= (strlen (str_concat a b)) (+ (strlen a) (strlen b))) :pattern ((str_concat a b))))"},
		condAxiom{[]string{"(str_concat (str_concat "}, "(forall ((a Str) (b Str) (c Str)) (! (= (str_concat (str_concat a b) c) (str_concat a (str_concat b c))) :pattern ((str_concat (str_concat a b) c))))"},
		condAxiom{[]string{"(set32 "}, "(forall ((x Int)) (! (=> (and (<= 0 x) (< x 4294967296)) (and (not (bit32 x)) (= (low32 x) x) (bit32 (set32 x)) (= (low32 (set32 x)) x) (>= (set32 x) 4294967296))) :pattern ((set32 x))))"},
		condAxiom{[]string{"(bit32 "}, "(forall ((x Int)) (! (=> (and (<= 0 x) (< x 4294967296)) (and (not (bit32 x)) (= (low32 x) x))) :pattern ((bit32 x))))"},
		condAxiom{[]string{"(low32 "}, "(forall ((x Int)) (! (=> (and (<= 0 x) (< x 4294967296)) (= (low32 x) x)) :pattern ((low32 x))))"},
		condAxiom{[]string{"(low32 "}, "(forall ((x Int)) (! (=> (<= 0 x) (and (<= 0 (low32 x)) (<= (low32 x) x))) :pattern ((low32 x))))"},
	)
	return c
}

func (c *Ctx) decl(key, text string) {
	if c.declared[key] {
		return
	}
	c.declared[key] = true
	c.decls = append(c.decls, text)
}

func (c *Ctx) Fresh(prefix, sort string) string {
	c.fresh++
	n := fmt.Sprintf("%s!%d", sanitize(prefix), c.fresh)
	c.decls = append(c.decls, fmt.Sprintf("(declare-const %s %s)", n, sort))
	return n
}

func (c *Ctx) Const(name, sort string) string {
	n := sanitize(name)
	c.decl("const:"+n, fmt.Sprintf("(declare-const %s %s)", n, sort))
	return n
}

func sanitize(s string) string {
	var b strings.Builder
	for _, r := range s {
		switch {
		case r >= 'a' && r <= 'z', r >= 'A' && r <= 'Z', r >= '0' && r <= '9', r == '_', r == '.', r == '!', r == '$':
			b.WriteRune(r)
		default:
			b.WriteString(fmt.Sprintf("_%x_", r))
		}
	}
	return b.String()
}

func (c *Ctx) StrLit(s string) string {
	if n, ok := c.strLits[s]; ok {
		return n
	}
	n := fmt.Sprintf("strlit!%d", len(c.strLits))
	c.strLits[s] = n
	c.strOrder = append(c.strOrder, s)
	c.decls = append(c.decls, fmt.Sprintf("(declare-const %s Str)", n))
	return n
}

// string literal facts: distinctness + lengths + first bytes
func (c *Ctx) strFacts() []string {
	var out []string
	if len(c.strOrder) > 1 {
		var names []string
		for _, s := range c.strOrder {
			names = append(names, c.strLits[s])
		}
		out = append(out, "(distinct "+strings.Join(names, " ")+")")
	}
	for _, s := range c.strOrder {
		n := c.strLits[s]
		out = append(out, fmt.Sprintf("(= (strlen %s) %d)", n, len(s)))
		if c.declared["fun:runeAt"] && len(s) > 0 {
			r, w := utf8.DecodeRuneInString(s)
			out = append(out, fmt.Sprintf("(and (= (runeAt %s 0) %d) (= (runeW %s 0) %d))", n, r, n, w))
		}
		if c.declared["fun:str_concat"] && len(s) == 0 {
			out = append(out, fmt.Sprintf("(forall ((a Str)) (! (and (= (str_concat %s a) a) (= (str_concat a %s) a)) :pattern ((str_concat %s a)) :pattern ((str_concat a %s))))", n, n, n, n))
		}
		if c.declared["fun:rune_count"] {
			ascii := true
			for i := 0; i < len(s); i++ {
				if s[i] >= 0x80 {
					ascii = false
				}
			}
			if ascii {
				out = append(out, fmt.Sprintf("(= (rune_count %s) %d)", n, len(s)))
			}
		}
	}
	return out
}

func (c *Ctx) TypeTag(t types.Type) int {
	k := types.TypeString(t, nil)
	if v, ok := c.typeTags[k]; ok {
		return v
	}
	v := len(c.typeTags) + 1
	c.typeTags[k] = v
	c.tagOrder = append(c.tagOrder, k)
	return v
}

func mangle(sortName string) string {
	r := strings.NewReplacer("(", "L", ")", "R", " ", "_")
	return r.Replace(sortName)
}

// Sort returns the SMT sort for a Go type, declaring datatypes on demand.
func (c *Ctx) Sort(t types.Type) string {
	switch u := t.(type) {
	case *types.Named:
		if st, ok := u.Underlying().(*types.Struct); ok {
			return c.structSort(u, st)
		}
		return c.Sort(u.Underlying())
	case *types.Alias:
		return c.Sort(types.Unalias(u))
	case *types.Basic:
		switch {
		case u.Info()&types.IsBoolean != 0:
			return "Bool"
		case u.Info()&types.IsString != 0:
			return "Str"
		case u.Info()&types.IsNumeric != 0:
			return "Int"
		case u.Kind() == types.UntypedNil:
			return "Int"
		case u.Kind() == types.UnsafePointer:
			return "Int"
		}
		return "Int"
	case *types.Pointer:
		return "Int"
	case *types.Struct:
		return c.structSort(nil, u)
	case *types.Slice:
		es := c.Sort(u.Elem())
		name := "Sl_" + mangle(es)
		c.decl("dt:"+name, fmt.Sprintf("(declare-datatypes ((%s 0)) (((mk_%s (arr_%s (Array Int %s)) (rawlen_%s Int) (nil_%s Bool) (bid_%s Int)))))", name, name, name, es, name, name, name))
		// the length of a slice is never negative (a negative raw field cannot arise from Go code)
		c.decl("fun:len_"+name, fmt.Sprintf("(define-fun len_%s ((s %s)) Int (ite (>= (rawlen_%s s) 0) (rawlen_%s s) 0))", name, name, name, name))
		return name
	case *types.Array:
		return fmt.Sprintf("(Array Int %s)", c.Sort(u.Elem()))
	case *types.Map:
		ks, vs := c.Sort(u.Key()), c.Sort(u.Elem())
		name := "Mp_" + mangle(ks) + "_" + mangle(vs)
		c.decl("dt:"+name, fmt.Sprintf("(declare-datatypes ((%s 0)) (((mk_%s (dom_%s (Array %s Bool)) (val_%s (Array %s %s))))))", name, name, name, ks, name, ks, vs))
		if !c.declared["fun:card_"+name] {
			c.axioms = append(c.axioms, condAxiom{[]string{"(card_" + name + " "}, fmt.Sprintf("(forall ((d (Array %s Bool))) (! (>= (card_%s d) 0) :pattern ((card_%s d))))", ks, name, name)})
		}
		c.decl("fun:card_"+name, fmt.Sprintf("(declare-fun card_%s ((Array %s Bool)) Int)", name, ks))
		return name
	case *types.Interface:
		return "Iface"
	case *types.Signature:
		return "Int"
	case *types.Chan:
		return "Int"
	case *types.Tuple:
		return "Int"
	}
	return "Int"
}

func (c *Ctx) structName(n *types.Named, st *types.Struct) string {
	if n != nil {
		p := ""
		if n.Obj().Pkg() != nil {
			p = n.Obj().Pkg().Name() + "_"
		}
		return "S_" + p + n.Obj().Name()
	}
	return "S_anon_" + mangle(sanitize(st.String()))
}

func (c *Ctx) structSort(n *types.Named, st *types.Struct) string {
	name := c.structName(n, st)
	if c.declared["dt:"+name] {
		return name
	}
	// declare fields first (dependencies)
	var flds []string
	var fv []*types.Var
	for i := 0; i < st.NumFields(); i++ {
		f := st.Field(i)
		fs := c.Sort(f.Type())
		flds = append(flds, fmt.Sprintf("(%s.%s %s)", name, sanitize(f.Name()), fs))
		fv = append(fv, f)
	}
	c.structFld[name] = fv
	if len(flds) == 0 {
		flds = append(flds, fmt.Sprintf("(%s._dummy Int)", name))
	}
	c.decl("dt:"+name, fmt.Sprintf("(declare-datatypes ((%s 0)) (((mk_%s %s))))", name, name, strings.Join(flds, " ")))
	return name
}

// constArr: the array that maps every index to the given element (cvc5 accepts "as const" only for values)
func (c *Ctx) constArr(idxSort, elemSort, elem string) string {
	if !strings.Contains(elem, "strlit!") {
		return fmt.Sprintf("((as const (Array %s %s)) %s)", idxSort, elemSort, elem)
	}
	name := "zarr_" + mangle(idxSort) + "_" + mangle(elemSort)
	if !c.declared["const:"+name] {
		c.decl("const:"+name, fmt.Sprintf("(declare-const %s (Array %s %s))", name, idxSort, elemSort))
		c.axioms = append(c.axioms, condAxiom{[]string{name}, fmt.Sprintf("(forall ((i %s)) (! (= (select %s i) %s) :pattern ((select %s i))))", idxSort, name, elem, name)})
	}
	return name
}

// Zero value of a type.
func (c *Ctx) Zero(t types.Type) string {
	switch u := t.(type) {
	case *types.Named:
		if st, ok := u.Underlying().(*types.Struct); ok {
			return c.zeroStruct(u, st)
		}
		return c.Zero(u.Underlying())
	case *types.Alias:
		return c.Zero(types.Unalias(u))
	case *types.Basic:
		switch {
		case u.Info()&types.IsBoolean != 0:
			return "false"
		case u.Info()&types.IsString != 0:
			return c.StrLit("")
		}
		return "0"
	case *types.Struct:
		return c.zeroStruct(nil, u)
	case *types.Slice:
		s := c.Sort(u)
		es := c.Sort(u.Elem())
		return fmt.Sprintf("(mk_%s %s 0 true 0)", s, c.constArr("Int", es, c.Zero(u.Elem())))
	case *types.Array:
		return c.constArr("Int", c.Sort(u.Elem()), c.Zero(u.Elem()))
	case *types.Map:
		s := c.Sort(u)
		return fmt.Sprintf("(mk_%s ((as const (Array %s Bool)) false) %s)", s, c.Sort(u.Key()), c.constArr(c.Sort(u.Key()), c.Sort(u.Elem()), c.Zero(u.Elem())))
	case *types.Interface:
		return "(mk_iface 0 0)"
	}
	return "0"
}

func (c *Ctx) zeroStruct(n *types.Named, st *types.Struct) string {
	name := c.structSort(n, st)
	if st.NumFields() == 0 {
		return fmt.Sprintf("(mk_%s 0)", name)
	}
	var parts []string
	for i := 0; i < st.NumFields(); i++ {
		parts = append(parts, c.Zero(st.Field(i).Type()))
	}
	return fmt.Sprintf("(mk_%s %s)", name, strings.Join(parts, " "))
}

// helpers for slices
func (c *Ctx) slArr(s Val) string { n := c.Sort(s.Ty); return fmt.Sprintf("(arr_%s %s)", n, s.S) }
func (c *Ctx) slLen(s Val) string { n := c.Sort(s.Ty); return fmt.Sprintf("(len_%s %s)", n, s.S) }
func (c *Ctx) slNil(s Val) string { n := c.Sort(s.Ty); return fmt.Sprintf("(nil_%s %s)", n, s.S) }
// bid is the identity of the backing array (0 for nil): make / literals get a fresh one, element stores and reslices
// keep it, append either keeps it or gets a fresh one. It lets contracts talk about aliasing of backing arrays.
func (c *Ctx) mkSlice(t types.Type, arr, ln, isnil, bid string) string {
	return fmt.Sprintf("(mk_%s %s %s %s %s)", c.Sort(t), arr, ln, isnil, bid)
}
func (c *Ctx) slBid(s Val) string { n := c.Sort(s.Ty); return fmt.Sprintf("(bid_%s %s)", n, s.S) }
func (c *Ctx) mpDom(m Val) string { n := c.Sort(m.Ty); return fmt.Sprintf("(dom_%s %s)", n, m.S) }
func (c *Ctx) mpVal(m Val) string { n := c.Sort(m.Ty); return fmt.Sprintf("(val_%s %s)", n, m.S) }
func (c *Ctx) mkMap(t types.Type, dom, val string) string {
	return fmt.Sprintf("(mk_%s %s %s)", c.Sort(t), dom, val)
}

func and(xs ...string) string {
	var ys []string
	for _, x := range xs {
		if x == "true" || x == "" {
			continue
		}
		ys = append(ys, x)
	}
	if len(ys) == 0 {
		return "true"
	}
	if len(ys) == 1 {
		return ys[0]
	}
	return "(and " + strings.Join(ys, " ") + ")"
}
func or(xs ...string) string {
	if len(xs) == 0 {
		return "false"
	}
	if len(xs) == 1 {
		return xs[0]
	}
	return "(or " + strings.Join(xs, " ") + ")"
}
func not(x string) string {
	if x == "true" {
		return "false"
	}
	if x == "false" {
		return "true"
	}
	if strings.HasPrefix(x, "(not ") && balanced(x[5:len(x)-1]) {
		return x[5 : len(x)-1]
	}
	return "(not " + x + ")"
}
func balanced(s string) bool {
	d := 0
	for i, ch := range s {
		if ch == '(' {
			d++
		} else if ch == ')' {
			d--
			if d < 0 {
				return false
			}
			if d == 0 && i != len(s)-1 {
				return false
			}
		} else if d == 0 && ch == ' ' {
			return false
		}
	}
	return d == 0
}
func implies(a, b string) string {
	if a == "true" {
		return b
	}
	return "(=> " + a + " " + b + ")"
}
func ite(c, a, b string) string {
	if a == b {
		return a
	}
	if c == "true" {
		return a
	}
	if c == "false" {
		return b
	}
	return "(ite " + c + " " + a + " " + b + ")"
}
func eq(a, b string) string { return "(= " + a + " " + b + ")" }
func num(n int64) string {
	if n < 0 {
		return fmt.Sprintf("(- %d)", -n)
	}
	return fmt.Sprintf("%d", n)
}

func sortedKeys[V any](m map[string]V) []string {
	var ks []string
	for k := range m {
		ks = append(ks, k)
	}
	sort.Strings(ks)
	return ks
}
