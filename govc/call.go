package main

import (
	"os"
	"fmt"
	"sort"
	"go/ast"
	"go/constant"
	"go/parser"
	"go/token"
	"go/types"
	"strings"
)

func parseExprString(s string) (ast.Expr, error) { return parser.ParseExpr(s) }

func (x *Exec) call(env *evalEnv, n *ast.CallExpr) []Val {
	if env.spec || env.info == nil {
		if v, ok := x.specCall(env, n); ok {
			return []Val{v}
		}
	}
	// type conversion
	if env.info != nil {
		if tv, ok := env.info.Types[n.Fun]; ok && tv.IsType() {
			return []Val{x.convert(env, n, tv.Type)}
		}
	} else {
		if t := x.tryType(env, n.Fun); t != nil {
			return []Val{x.convert(env, n, t)}
		}
	}
	// builtins
	if id, ok := ast.Unparen(n.Fun).(*ast.Ident); ok {
		var isBuiltin bool
		if env.info != nil {
			_, isBuiltin = env.info.Uses[id].(*types.Builtin)
		} else {
			_, isBuiltin = types.Universe.Lookup(id.Name).(*types.Builtin)
			if _, shadow := env.bound[id.Name]; shadow {
				isBuiltin = false
			}
		}
		if isBuiltin {
			return x.builtin(env, n, id.Name)
		}
	}
	// resolve callee
	var fn *types.Func
	var recvExpr ast.Expr
	var recvPath []int
	switch f := ast.Unparen(n.Fun).(type) {
	case *ast.Ident:
		if o, ok := x.lookupObj(env, f).(*types.Func); ok {
			fn = o
		}
	case *ast.SelectorExpr:
		if env.info != nil {
			if sel, ok := env.info.Selections[f]; ok {
				if o, ok := sel.Obj().(*types.Func); ok {
					fn = o
					recvExpr = f.X
					if idx := sel.Index(); len(idx) > 1 {
						recvPath = idx[:len(idx)-1]
					}
				}
			} else if o, ok := env.info.Uses[f.Sel].(*types.Func); ok {
				fn = o
			}
		} else {
			// spec mode: pkg.Func or method
			if id, ok := f.X.(*ast.Ident); ok {
				if pn, ok := x.lookupObj(env, id).(*types.PkgName); ok {
					if o, ok := pn.Imported().Scope().Lookup(f.Sel.Name).(*types.Func); ok {
						fn = o
					}
				}
			}
			if fn == nil {
				base := x.expr(env, f.X)
				_, obj := x.fieldPath(env, f, base.Ty)
				if o, ok := obj.(*types.Func); ok {
					fn = o
					recvExpr = f.X
				}
			}
		}
	}
	if fn == nil {
		// call through a function value
		return x.callFuncValue(env, n)
	}
	if env.spec {
		if recvExpr != nil {
			return []Val{x.specMethodCall(env, n, fn, recvExpr)}
		}
		return []Val{x.specFuncCall(env, n, fn)}
	}
	return x.callFunc(env, n, fn, recvExpr, recvPath)
}

func (x *Exec) tryType(env *evalEnv, e ast.Expr) (t types.Type) {
	defer func() {
		if r := recover(); r != nil {
			t = nil
		}
	}()
	switch n := e.(type) {
	case *ast.Ident:
		if _, ok := env.bound[n.Name]; ok {
			return nil
		}
		if tn, ok := x.lookupObj(env, n).(*types.TypeName); ok {
			return tn.Type()
		}
		return nil
	case *ast.ArrayType, *ast.StarExpr, *ast.MapType:
		return x.resolveType(env, e)
	case *ast.SelectorExpr:
		if id, ok := n.X.(*ast.Ident); ok {
			if pn, ok := x.lookupObj(env, id).(*types.PkgName); ok {
				if tn, ok := pn.Imported().Scope().Lookup(n.Sel.Name).(*types.TypeName); ok {
					return tn.Type()
				}
			}
		}
	case *ast.ParenExpr:
		return x.tryType(env, n.X)
	}
	return nil
}

func (x *Exec) convert(env *evalEnv, n *ast.CallExpr, t types.Type) Val {
	v := x.expr(env, n.Args[0])
	switch {
	case isInt(t) && (isInt(v.Ty) || isUntyped(v.Ty)):
		return Val{v.S, t}
	case isString(t) && isInt(v.Ty):
		x.ctx.decl("fun:str_of_rune", "(declare-fun str_of_rune (Int) Str)")
		// string(r): the UTF-8 encoding of r (1..4 bytes), of U+FFFD when r is not a Unicode scalar value
		sr := "(str_of_rune " + v.S + ")"
		valid := fmt.Sprintf("(and (<= 0 %s) (<= %s 1114111) (not (and (<= 55296 %s) (<= %s 57343))))", v.S, v.S, v.S, v.S)
		if x.inSpec == 0 {
			x.st.assume(fmt.Sprintf("(and (<= 1 (strlen %s)) (<= (strlen %s) 4) (= (runeW %s 0) (strlen %s)) (= (runeAt %s 0) (ite %s %s 65533)))", sr, sr, sr, sr, sr, valid, v.S))
		}
		return Val{sr, t}
	case isString(t) && isString(v.Ty):
		return Val{v.S, t}
	}
	if x.ctx.Sort(t) == x.ctx.Sort(v.Ty) {
		return Val{v.S, t}
	}
	if _, ok := t.Underlying().(*types.Interface); ok {
		return x.convertTo(v, t)
	}
	x.fail(n.Pos(), "UNSUPPORTED conversion %s -> %s", v.Ty, t)
	return Val{}
}

func (x *Exec) builtin(env *evalEnv, n *ast.CallExpr, name string) []Val {
	switch name {
	case "len":
		v := x.expr(env, n.Args[0])
		switch u := v.Ty.Underlying().(type) {
		case *types.Slice:
			return []Val{{x.ctx.slLen(v), tInt}}
		case *types.Array:
			return []Val{{fmt.Sprint(u.Len()), tInt}}
		case *types.Map:
			return []Val{{fmt.Sprintf("(card_%s %s)", x.ctx.Sort(v.Ty), x.ctx.mpDom(v)), tInt}}
		case *types.Basic:
			if isString(v.Ty) {
				return []Val{{"(strlen " + v.S + ")", tInt}}
			}
		}
		x.fail(n.Pos(), "UNSUPPORTED len of %s", v.Ty)
	case "cap":
		v := x.expr(env, n.Args[0])
		x.note("cap() treated as len()")
		return []Val{{x.ctx.slLen(v), tInt}}
	case "append":
		s := x.expr(env, n.Args[0])
		st, ok := s.Ty.Underlying().(*types.Slice)
		if !ok {
			// append(nilSlice...) where first arg untyped? use result type
			x.fail(n.Pos(), "UNSUPPORTED append to %s", s.Ty)
		}
		if n.Ellipsis.IsValid() {
			o := x.expr(env, n.Args[1])
			if isNilType(o.Ty) {
				return []Val{s}
			}
			arr := x.ctx.Fresh("app", fmt.Sprintf("(Array Int %s)", x.ctx.Sort(st.Elem())))
			ls, lo := x.ctx.slLen(s), x.ctx.slLen(o)
			x.assumeQ(fmt.Sprintf("(forall ((i Int)) (! (= (select %s i) (ite (< i %s) (select %s i) (select %s (- i %s)))) :pattern ((select %s i))))", arr, ls, x.ctx.slArr(s), x.ctx.slArr(o), ls, arr))
			// the same fact triggered from the appended slice, so that an element of it yields its new position as a witness
			x.assumeQ(fmt.Sprintf("(forall ((k Int)) (! (=> (<= 0 k) (= (select %s (+ %s k)) (select %s k))) :pattern ((select %s k))))", arr, ls, x.ctx.slArr(o), x.ctx.slArr(o)))
			x.assumeQ(fmt.Sprintf("(forall ((k Int)) (! (=> (and (<= 0 k) (< k %s)) (= (select %s k) (select %s k))) :pattern ((select %s k))))", ls, arr, x.ctx.slArr(s), x.ctx.slArr(s)))
			isnil := and(x.ctx.slNil(s), "(= "+lo+" 0)")
			return []Val{{x.ctx.mkSlice(s.Ty, arr, "(+ "+ls+" "+lo+")", isnil, x.appendBid(s)), s.Ty}}
		}
		arr := x.ctx.slArr(s)
		ln := x.ctx.slLen(s)
		for i, a := range n.Args[1:] {
			v := x.exprAs(env, a, st.Elem())
			idx := ln
			if i > 0 {
				idx = fmt.Sprintf("(+ %s %d)", ln, i)
			}
			arr = fmt.Sprintf("(store %s %s %s)", arr, idx, v.S)
		}
		nl := ln
		if k := len(n.Args) - 1; k > 0 {
			nl = fmt.Sprintf("(+ %s %d)", ln, k)
			return []Val{{x.ctx.mkSlice(s.Ty, arr, nl, "false", x.appendBid(s)), s.Ty}}
		}
		return []Val{s}
	case "make":
		t := x.typeOfOrDerive(env, n)
		if t == nil {
			t = x.resolveType(env, n.Args[0])
		}
		switch u := t.Underlying().(type) {
		case *types.Slice:
			ln := x.expr(env, n.Args[1])
			if !env.spec {
				x.oblige(env, "bounds", n.Pos(), "(>= "+ln.S+" 0)", "make: non-negative length")
			}
			arr := x.ctx.constArr("Int", x.ctx.Sort(u.Elem()), x.ctx.Zero(u.Elem()))
			return []Val{{x.ctx.mkSlice(t, arr, ln.S, "false", x.freshBid()), t}}
		case *types.Map:
			return []Val{{x.ctx.Zero(t), t}}
		case *types.Chan:
			return []Val{{x.ctx.Fresh("chan", "Int"), t}}
		}
		x.fail(n.Pos(), "UNSUPPORTED make(%s)", t)
	case "new":
		t := x.resolveType(env, n.Args[0])
		st, ok := structOf(t)
		if !ok {
			x.fail(n.Pos(), "UNSUPPORTED new(%s)", t)
		}
		ref := x.allocObj()
		x.storeStruct(ref, Val{x.ctx.Zero(t), t}, st)
		return []Val{{ref, types.NewPointer(t)}}
	case "copy":
		// copy(dst, src): dst must be an assignable location
		dst := x.expr(env, n.Args[0])
		src := x.expr(env, n.Args[1])
		st := dst.Ty.Underlying().(*types.Slice)
		ld, lsrc := x.ctx.slLen(dst), x.ctx.slLen(src)
		cnt := ite("(< "+ld+" "+lsrc+")", ld, lsrc)
		arr := x.ctx.Fresh("cpy", fmt.Sprintf("(Array Int %s)", x.ctx.Sort(st.Elem())))
		x.assumeQ(fmt.Sprintf("(forall ((i Int)) (! (= (select %s i) (ite (and (<= 0 i) (< i %s)) (select %s i) (select %s i))) :pattern ((select %s i))))", arr, cnt, x.ctx.slArr(src), x.ctx.slArr(dst), arr))
		x.assignTo(n.Args[0], Val{x.ctx.mkSlice(dst.Ty, arr, ld, x.ctx.slNil(dst), x.ctx.slBid(dst)), dst.Ty})
		return []Val{{cnt, tInt}}
	case "delete":
		m := x.expr(env, n.Args[0])
		mt := m.Ty.Underlying().(*types.Map)
		k := x.convertTo(x.expr(env, n.Args[1]), mt.Key())
		nm := Val{x.ctx.mkMap(m.Ty, fmt.Sprintf("(store %s %s false)", x.ctx.mpDom(m), k.S), x.ctx.mpVal(m)), m.Ty}
		x.assignTo(n.Args[0], nm)
		return nil
	case "min", "max":
		a := x.expr(env, n.Args[0])
		b := x.expr(env, n.Args[1])
		op := "<"
		if name == "max" {
			op = ">"
		}
		return []Val{{ite("("+op+" "+a.S+" "+b.S+")", a.S, b.S), a.Ty}}
	case "panic":
		x.fail(n.Pos(), "panic used as expression")
	case "print", "println":
		return nil
	case "close":
		x.expr(env, n.Args[0])
		x.note("close(channel): the receiver sees ok == false from now on (assumption A-seq)")
		return nil
	}
	x.fail(n.Pos(), "UNSUPPORTED builtin %s", name)
	return nil
}

// assumeQ adds a quantified definitional fact (only in code mode; in spec mode fresh arrays cannot be constrained soundly)
func (x *Exec) assumeQ(f string) {
	if x.inSpec > 0 {
		panic(evalError{"UNSUPPORTED: array-producing operation inside a spec expression"})
	}
	x.st.assume(f)
}

// callFuncValue: a call through a function value is a case split over the closed set of package-level functions of the
// same package that have exactly that type and a contract (e.g. the lexer's state functions); the value must be one of them.
func (x *Exec) callFuncValue(env *evalEnv, n *ast.CallExpr) []Val {
	if env.info == nil {
		x.fail(n.Pos(), "UNSUPPORTED call through function value %s in a spec", exprStr(n.Fun))
	}
	fv := x.expr(env, n.Fun)
	ft, ok := fv.Ty.Underlying().(*types.Signature)
	if !ok {
		x.fail(n.Pos(), "UNSUPPORTED call of non-function %s", exprStr(n.Fun))
	}
	var args []Val
	for i, a := range n.Args {
		args = append(args, x.exprAs(env, a, ft.Params().At(i).Type()))
	}
	var cands []*FuncUnit
	for _, cu := range x.v.funcs {
		if cu.Pkg.Types != x.fr().unit.Pkg.Types || cu.Obj.Type().(*types.Signature).Recv() != nil {
			continue
		}
		if types.Identical(cu.Obj.Type().Underlying(), ft) || types.AssignableTo(cu.Obj.Type(), fv.Ty) {
			if con := x.v.contractOf(cu); con != nil {
				cands = append(cands, cu)
			}
		}
	}
	sort.Slice(cands, func(i, j int) bool { return cands[i].Obj.Name() < cands[j].Obj.Name() })
	if len(cands) == 0 {
		x.fail(n.Pos(), "UNSUPPORTED call through function value %s: no candidate functions under contract", exprStr(n.Fun))
	}
	var isOne []string
	for _, cu := range cands {
		isOne = append(isOne, eq(fv.S, fmt.Sprint(x.funcTag(cu.Obj))))
	}
	x.oblige(env, "funcvalue", n.Pos(), or(isOne...), "the function value is one of the "+fmt.Sprint(len(cands))+" functions of this type under contract")
	base := x.st
	var outs []*State
	var results [][]Val
	for _, cu := range cands {
		s := base.clone()
		s.assume(eq(fv.S, fmt.Sprint(x.funcTag(cu.Obj))))
		x.st = s
		rs := x.applyContract(env, n, cu, x.v.contractOf(cu), nil, args)
		outs = append(outs, x.st)
		results = append(results, rs)
	}
	// merge: results become fresh variables defined per branch
	nres := ft.Results().Len()
	final := make([]Val, nres)
	for k := 0; k < nres; k++ {
		t := ft.Results().At(k).Type()
		final[k] = Val{x.ctx.Fresh("fvres", x.ctx.Sort(t)), t}
	}
	for i, s := range outs {
		for k := 0; k < nres; k++ {
			s.assume(eq(final[k].S, results[i][k].S))
		}
	}
	x.st = x.mergeAll(outs)
	return final
}

// specMethodCall: pure method used in a spec (inline single-return methods)
func (x *Exec) specMethodCall(env *evalEnv, n *ast.CallExpr, fn *types.Func, recvExpr ast.Expr) Val {
	unit := x.v.byObj[fn]
	if unit == nil || unit.Decl.Body == nil || len(unit.Decl.Body.List) != 1 {
		x.fail(n.Pos(), "UNSUPPORTED method call %s in spec", fn.Name())
	}
	rs, ok := unit.Decl.Body.List[0].(*ast.ReturnStmt)
	if !ok || len(rs.Results) != 1 {
		x.fail(n.Pos(), "UNSUPPORTED method call %s in spec (not a single return)", fn.Name())
	}
	sig := fn.Type().(*types.Signature)
	e2 := &evalEnv{pkg: unit.Pkg.Types, bound: map[string]Val{}, old: env.old, spec: true}
	e2.bound[sig.Recv().Name()] = x.expr(env, recvExpr)
	for i := 0; i < sig.Params().Len(); i++ {
		e2.bound[sig.Params().At(i).Name()] = x.convertTo(x.expr(env, n.Args[i]), sig.Params().At(i).Type())
	}
	v := x.expr(e2, rs.Results[0])
	return Val{v.S, sig.Results().At(0).Type()}
}

// ---------- calls of real functions ----------

func (x *Exec) callFunc(env *evalEnv, n *ast.CallExpr, fn *types.Func, recvExpr ast.Expr, recvPath []int) []Val {
	sig := fn.Type().(*types.Signature)
	full := fn.FullName()
	// library models
	if fn.Pkg() == nil || !x.v.isRepoPkg(fn.Pkg().Path()) {
		return x.libCall(env, n, fn, full, recvExpr)
	}
	// evaluate receiver and arguments
	var recv *Val
	if recvExpr != nil {
		r := x.expr(env, recvExpr)
		if len(recvPath) > 0 {
			r = x.walkFields(env, n.Pos(), r, recvPath) // promoted method: receiver is the embedded field
		}
		rt := sig.Recv().Type()
		// auto address / deref
		if _, wantPtr := ptrElem(rt); wantPtr {
			if _, isPtr := ptrElem(r.Ty); !isPtr {
				boxedRef := ""
				if id, ok := ast.Unparen(recvExpr).(*ast.Ident); ok && len(recvPath) == 0 && env.info != nil {
					if o, ok := x.lookupObj(env, id).(*types.Var); ok && x.boxed[o] {
						// a local struct variable whose address is taken lives in the heap: &g is its box
						boxedRef = x.st.vars[o].S
					}
				}
				if boxedRef == "" {
					// (*p).M() with a pointer-receiver method: the receiver is p itself
					if se, ok := ast.Unparen(recvExpr).(*ast.StarExpr); ok && len(recvPath) == 0 {
						pv := x.expr(env, se.X)
						if _, isP := ptrElem(pv.Ty); isP {
							boxedRef = pv.S
						}
					}
				}
				if boxedRef != "" {
					r = Val{boxedRef, rt}
				} else {
					// method with pointer receiver on another addressable value: snapshot (see interior pointers)
					st, ok := structOf(r.Ty)
					if !ok {
						x.fail(n.Pos(), "UNSUPPORTED receiver")
					}
					ref := x.allocObj()
					x.storeStruct(ref, r, st)
					x.note("pointer-receiver call on a value at " + posStr(x.v.fset, n.Pos()) + ": receiver copied into a fresh object (writes through the receiver are not propagated back)")
					r = Val{ref, rt}
				}
			}
		} else if el, isPtr := ptrElem(r.Ty); isPtr {
			x.nilCheck(env, n.Pos(), r)
			r = x.loadStruct(x.st, r.S, el, n.Pos())
		}
		recv = &r
	}
	var args []Val
	isTuple := false
	if len(n.Args) == 1 && sig.Params().Len() > 1 && env.info != nil {
		if tv, ok := env.info.Types[n.Args[0]]; ok {
			_, isTuple = tv.Type.(*types.Tuple)
		}
	}
	if isTuple {
		args = x.call(env, n.Args[0].(*ast.CallExpr))
	} else {
		for i, a := range n.Args {
			var pt types.Type
			if i < sig.Params().Len() {
				pt = sig.Params().At(i).Type()
			}
			if sig.Variadic() && i >= sig.Params().Len()-1 {
				break
			}
			args = append(args, x.exprAs(env, a, pt))
		}
		if sig.Variadic() {
			// pack the variadic arguments into a slice
			k := sig.Params().Len() - 1
			vt := sig.Params().At(k).Type()
			st := vt.Underlying().(*types.Slice)
			if n.Ellipsis.IsValid() {
				args = append(args, x.exprAs(env, n.Args[k], vt))
			} else if len(n.Args) <= k {
				args = append(args, Val{x.ctx.Zero(vt), vt})
			} else {
				arr := x.ctx.constArr("Int", x.ctx.Sort(st.Elem()), x.ctx.Zero(st.Elem()))
				for j, a := range n.Args[k:] {
					v := x.exprAs(env, a, st.Elem())
					arr = fmt.Sprintf("(store %s %d %s)", arr, j, v.S)
				}
				args = append(args, Val{x.ctx.mkSlice(vt, arr, fmt.Sprint(len(n.Args)-k), "false", x.freshBid()), vt})
			}
		}
	}
	cu := x.v.byObj[fn]
	if cu == nil {
		// interface method: the dynamic callee is one of the repository's methods of that name; the union of what they
		// can modify is havoced (everything, if there is none or one of them cannot be analysed)
		ms := newModSet()
		cands := 0
		for _, c := range x.v.funcs {
			if c.Obj.Name() == fn.Name() && c.Obj.Type().(*types.Signature).Recv() != nil && c.Decl.Body != nil && x.v.isRepoPkg(c.Pkg.PkgPath) {
				cands++
				if con := x.v.contractOf(c); con != nil && !con.Inline {
					x.contractMods(c, con, ms)
				} else {
					x.collectMods(c, c.Decl.Body, ms, map[*types.Func]bool{c.Obj: true})
				}
			}
		}
		if cands == 0 {
			ms.all = true
		}
		x.unmodelled = append(x.unmodelled, fmt.Sprintf("%s: call of interface method %s: the union of the modification sets of its %d implementations is havoced", posStr(x.v.fset, n.Pos()), full, cands))
		x.havocMods(ms, x.st)
		var rs []Val
		for i := 0; i < sig.Results().Len(); i++ {
			t := sig.Results().At(i).Type()
			rs = append(rs, Val{x.ctx.Fresh("res", x.ctx.Sort(t)), t})
		}
		return rs
	}
	if con := x.v.contractOf(cu); con != nil && !con.Inline {
		return x.applyContract(env, n, cu, con, recv, args)
	}
	if cu.Decl.Body == nil || isSpecStub(cu.Decl) {
		// spec function without definition used in code: uninterpreted
		return []Val{x.specFuncCall(env, n, fn)}
	}
	if x.inlining[fn] || x.depth > 8 {
		x.unmodelled = append(x.unmodelled, fmt.Sprintf("%s: recursive or too deep call to %s: everything reachable havoced", posStr(x.v.fset, n.Pos()), full))
		x.havocAll(x.st)
		var rs []Val
		for i := 0; i < sig.Results().Len(); i++ {
			t := sig.Results().At(i).Type()
			rs = append(rs, Val{x.ctx.Fresh("res", x.ctx.Sort(t)), t})
		}
		return rs
	}
	if cnt := x.inlineCost(cu, map[*types.Func]bool{}); cnt > inlineLimit {
		// a large function without contract is not inlined: what it can modify is havoced, its results are unconstrained
		ms := newModSet()
		x.collectMods(cu, cu.Decl.Body, ms, map[*types.Func]bool{fn: true})
		ms.allocs = true
		x.unmodelled = append(x.unmodelled, fmt.Sprintf("%s: call of %s (no contract, %d statements): not inlined; its modification set is havoced and its results are unconstrained", posStr(x.v.fset, n.Pos()), full, cnt))
		x.havocMods(ms, x.st)
		var rs []Val
		for i := 0; i < sig.Results().Len(); i++ {
			t := sig.Results().At(i).Type()
			rs = append(rs, Val{x.ctx.Fresh("res", x.ctx.Sort(t)), t})
		}
		return rs
	}
	return x.inlineCall(env, n, cu, recv, args)
}

const inlineLimit = 120

// inlineCost: statements of the function plus, transitively, of the repository functions without contract it calls
func (x *Exec) inlineCost(cu *FuncUnit, seen map[*types.Func]bool) int {
	if c, ok := x.v.costMemo[cu.Obj]; ok {
		return c
	}
	if seen[cu.Obj] {
		return inlineLimit + 1
	}
	seen[cu.Obj] = true
	c := stmtCount(cu.Decl.Body)
	ast.Inspect(cu.Decl.Body, func(nd ast.Node) bool {
		call, ok := nd.(*ast.CallExpr)
		if !ok || c > inlineLimit {
			return true
		}
		fn := x.calleeOf(cu.Pkg.TypesInfo, call)
		if fn == nil {
			return true
		}
		sub := x.v.byObj[fn]
		if sub == nil || sub.Decl.Body == nil {
			return true
		}
		if con := x.v.contractOf(sub); con != nil && !con.Inline {
			return true
		}
		c += x.inlineCost(sub, seen)
		return true
	})
	delete(seen, cu.Obj)
	x.v.costMemo[cu.Obj] = c
	return c
}

func stmtCount(n ast.Node) int {
	c := 0
	ast.Inspect(n, func(nd ast.Node) bool {
		if _, ok := nd.(ast.Stmt); ok {
			c++
		}
		return true
	})
	return c
}

func (x *Exec) inlineCall(env *evalEnv, n *ast.CallExpr, cu *FuncUnit, recv *Val, args []Val) []Val {
	fn := cu.Obj
	sig := fn.Type().(*types.Signature)
	if os.Getenv("GOVC_DEBUG_INLINE") != "" {
		fmt.Fprintf(os.Stderr, "inline %*s%s\n", x.depth*2, "", fn.FullName())
	}
	x.inlining[fn] = true
	x.depth++
	defer func() { delete(x.inlining, fn); x.depth-- }()
	fr := x.newFrame(cu, nil, false)
	fr.env.prefix = env.prefix + fn.Name() + "."
	if recv != nil && sig.Recv() != nil {
		x.st.vars[sig.Recv()] = Val{recv.S, sig.Recv().Type()}
	}
	for i := 0; i < sig.Params().Len(); i++ {
		p := sig.Params().At(i)
		x.st.vars[p] = Val{args[i].S, p.Type()}
	}
	for _, r := range fr.results {
		x.st.vars[r] = Val{x.ctx.Zero(r.Type()), r.Type()}
	}
	x.frames = append(x.frames, fr)
	f := x.block(cu.Decl.Body.List, x.st)
	x.frames = x.frames[:len(x.frames)-1]
	rets := f.ret
	if f.next != nil {
		rets = append(rets, f.next)
	}
	if len(f.brk) > 0 || len(f.cont) > 0 || len(f.gotos) > 0 {
		x.fail(n.Pos(), "dangling break/continue/goto out of inlined %s", fn.Name())
	}
	m := x.mergeAll(rets)
	if m == nil {
		// callee never returns on this path (panics): path is dead
		dead := x.st.clone()
		dead.assume("false")
		x.st = dead
		var rs []Val
		for _, r := range fr.results {
			rs = append(rs, Val{x.ctx.Zero(r.Type()), r.Type()})
		}
		return rs
	}
	x.st = m
	var rs []Val
	for _, r := range fr.results {
		rs = append(rs, m.vars[r])
	}
	return rs
}

func (x *Exec) newFrame(cu *FuncUnit, con *Contract, top bool) *frame {
	fr := &frame{unit: cu, con: con, top: top, loopOrd: map[ast.Node]int{}, backLbl: map[string]bool{}}
	fr.env = &evalEnv{info: cu.Pkg.TypesInfo, pkg: cu.Pkg.Types}
	sig := cu.Obj.Type().(*types.Signature)
	for i := 0; i < sig.Results().Len(); i++ {
		r := sig.Results().At(i)
		if r.Name() == "" || r.Name() == "_" {
			name := fmt.Sprintf("res%d", i)
			if con != nil && i < len(con.Results) {
				name = con.Results[i]
			}
			r = types.NewVar(token.NoPos, cu.Pkg.Types, name, r.Type())
		}
		fr.results = append(fr.results, r)
	}
	// address-taken locals are boxed (live in the heap)
	if cu.Decl.Body != nil {
		ast.Inspect(cu.Decl.Body, func(nd ast.Node) bool {
			if u, ok := nd.(*ast.UnaryExpr); ok && u.Op == token.AND {
				if id, ok := ast.Unparen(u.X).(*ast.Ident); ok {
					if o, ok := cu.Pkg.TypesInfo.ObjectOf(id).(*types.Var); ok && o.Pkg() != nil && o.Parent() != o.Pkg().Scope() {
						x.boxed[o] = true
					}
				}
			}
			// g.M() with a pointer-receiver method on an addressable struct variable takes &g implicitly
			if call, ok := nd.(*ast.CallExpr); ok {
				if se, ok := ast.Unparen(call.Fun).(*ast.SelectorExpr); ok {
					if sel, ok := cu.Pkg.TypesInfo.Selections[se]; ok && sel.Kind() == types.MethodVal {
						if fn, ok := sel.Obj().(*types.Func); ok {
							if rv := fn.Type().(*types.Signature).Recv(); rv != nil {
								if _, isPtr := rv.Type().(*types.Pointer); isPtr {
									if id, ok := ast.Unparen(se.X).(*ast.Ident); ok {
										if o, ok := cu.Pkg.TypesInfo.ObjectOf(id).(*types.Var); ok && o.Pkg() != nil && o.Parent() != o.Pkg().Scope() {
											if _, vIsPtr := o.Type().Underlying().(*types.Pointer); !vIsPtr {
												x.boxed[o] = true
											}
										}
									}
								}
							}
						}
					}
				}
			}
			return true
		})
	}
	// loop ordinals & backward-goto labels
	if cu.Decl.Body != nil {
		labels := map[string]*ast.LabeledStmt{}
		ast.Inspect(cu.Decl.Body, func(nd ast.Node) bool {
			if ls, ok := nd.(*ast.LabeledStmt); ok {
				labels[ls.Label.Name] = ls
			}
			return true
		})
		for name, ls := range labels {
			ast.Inspect(ls.Stmt, func(nd ast.Node) bool {
				if bs, ok := nd.(*ast.BranchStmt); ok && bs.Tok == token.GOTO && bs.Label.Name == name {
					fr.backLbl[name] = true
				}
				return true
			})
		}
		ord := 0
		ast.Inspect(cu.Decl.Body, func(nd ast.Node) bool {
			switch s := nd.(type) {
			case *ast.FuncLit:
				return false
			case *ast.LabeledStmt:
				if fr.backLbl[s.Label.Name] {
					fr.loopOrd[s] = ord
					ord++
				}
			case *ast.ForStmt, *ast.RangeStmt:
				fr.loopOrd[s] = ord
				ord++
			}
			return true
		})
	}
	return fr
}

// applyContract: modular call
func (x *Exec) applyContract(env *evalEnv, n *ast.CallExpr, cu *FuncUnit, con *Contract, recv *Val, args []Val) []Val {
	fn := cu.Obj
	sig := fn.Type().(*types.Signature)
	if con.Trusted {
		x.trustedUsed[x.v.unitName(cu)] = true
	}
	// a postcondition that promises fresh objects / arrays is contradictory for the caller unless the contract also says
	// that the callee allocates (the caller's allocation counter would not move): refuse it instead of verifying dead code
	hasAlloc, usesFresh := false, (*Clause)(nil)
	for _, cl := range con.Clauses {
		if cl.Kind == "allocates" {
			hasAlloc = true
		}
		if (cl.Kind == "ensures" || cl.Kind == "assumes") && strings.Contains(cl.Text, "fresh(") {
			usesFresh = cl
		}
	}
	if usesFresh != nil && !hasAlloc {
		panic(evalError{fmt.Sprintf("%s:%d: BINDING: contract of %s promises fresh(...) but has no `allocates` clause", usesFresh.File, usesFresh.Line, con.Key)})
	}
	ce := &evalEnv{pkg: cu.Pkg.Types, bound: map[string]Val{}, spec: true, prefix: env.prefix}
	if recv != nil && sig.Recv() != nil {
		ce.bound[sig.Recv().Name()] = Val{recv.S, sig.Recv().Type()}
	}
	for i := 0; i < sig.Params().Len(); i++ {
		ce.bound[sig.Params().At(i).Name()] = Val{args[i].S, sig.Params().At(i).Type()}
		if i < len(con.Params) {
			ce.bound[con.Params[i]] = Val{args[i].S, sig.Params().At(i).Type()}
		}
	}
	pre := x.st.clone()
	ce.old = pre
	k := 0
	short := shortKey(con.Key)
	if recv != nil && sig.Recv() != nil {
		if _, isPtr := ptrElem(sig.Recv().Type()); isPtr {
			g := not(eq(recv.S, "0"))
			x.addObl("pre", "", n.Pos(), g, "receiver of "+short+" is non-nil", nil, env.prefix+"@"+short+"#recv")
			x.st.assume(g)
		}
	}
	for _, cl := range con.Clauses {
		switch cl.Kind {
		case "requires":
			g := x.spec(ce, x.parseClause(cl))
			x.addObl("pre", "", n.Pos(), g, "requires of "+short+": "+cl.Text, nil, env.prefix+"@"+short+fmt.Sprintf("#%d", k))
			x.st.assume(g)
			k++
		case "panics_when":
			g := not(x.spec(ce, x.parseClause(cl)))
			x.addObl("pre", "", n.Pos(), g, "callee "+short+" panics when: "+cl.Text, nil, env.prefix+"@"+short+"#panic")
			x.st.assume(g)
		}
	}
	// effects
	for _, cl := range con.Clauses {
		if cl.Kind == "effect" {
			x.effects = append(x.effects, effectEvent{Name: "call:" + short + ":" + cl.Text, Pos: n.Pos(), St: x.st})
		}
	}
	// havoc
	items := x.parseModifies(cu, con)
	allocs := false
	for _, cl := range con.Clauses {
		if cl.Kind == "allocates" {
			allocs = true
		}
	}
	for _, it := range items {
		switch {
		case it.all:
			x.havocAll(x.st)
		case it.global != nil:
			x.havocVar(x.st, it.global)
		case it.whole:
			x.st.heap[it.field] = x.ctx.Fresh(x.heapName(it.field), fmt.Sprintf("(Array Int %s)", x.ctx.Sort(it.field.Type())))
		case it.ghost != "":
			if old, ok := x.st.ghost[it.ghost]; ok {
				x.st.ghost[it.ghost] = Val{x.ctx.Fresh(it.ghost, "Int"), old.Ty}
			}
		case it.deref != nil:
			sv := x.st
			x.st = pre
			x.inSpec++
			obj := x.expr(ce, it.deref)
			x.inSpec--
			x.st = sv
			for _, f := range x.derefFields(cu, it.deref) {
				nv := x.ctx.Fresh("mod_"+f.Name(), x.ctx.Sort(f.Type()))
				x.setHeap(f, fmt.Sprintf("(store %s %s %s)", x.heapOf(x.st, f), obj.S, nv))
			}
		case it.objExp != nil:
			sel := it.objExp.(*ast.SelectorExpr)
			sv := x.st
			x.st = pre
			x.inSpec++
			obj := x.expr(ce, sel.X)
			x.inSpec--
			x.st = sv
			f := x.fieldByName(cu, sel)
			if f == nil {
				x.fail(n.Pos(), "BINDING: modifies %s: unknown field", exprStr(sel))
			}
			if _, isPtr := ptrElem(obj.Ty); !isPtr {
				x.fail(n.Pos(), "modifies %s: object is not a pointer", exprStr(sel))
			}
			nv := x.ctx.Fresh("mod_"+f.Name(), x.ctx.Sort(f.Type()))
			x.setHeap(f, fmt.Sprintf("(store %s %s %s)", x.heapOf(x.st, f), obj.S, nv))
		}
	}
	if allocs {
		// callee may allocate: new objects have arbitrary field values
		na := x.ctx.Fresh("alloc", "Int")
		x.st.assume("(>= " + na + " " + x.st.alloc + ")")
		for _, cl := range con.Clauses {
			if cl.Kind != "allocates" {
				continue
			}
			for _, tn := range splitList(cl.Text) {
				if tn == "arrays" {
					continue // backing arrays of slices: only the allocation counter moves
				}
				var o types.Object
				if i := strings.Index(tn, "."); i > 0 {
					ps := cu.Pkg.Types.Scope()
					for c := 0; c < ps.NumChildren(); c++ {
						if pn, ok := ps.Child(c).Lookup(tn[:i]).(*types.PkgName); ok {
							o = pn.Imported().Scope().Lookup(tn[i+1:])
						}
					}
				} else {
					_, o = cu.Pkg.Types.Scope().LookupParent(tn, token.NoPos)
				}
				tnm, ok := o.(*types.TypeName)
				if !ok {
					x.fail(n.Pos(), "BINDING: allocates %s: unknown type", tn)
				}
				st, ok := structOf(tnm.Type())
				if !ok {
					continue
				}
				for i := 0; i < st.NumFields(); i++ {
					f := st.Field(i)
					old := x.heapOf(x.st, f)
					nh := x.ctx.Fresh(x.heapName(f), fmt.Sprintf("(Array Int %s)", x.ctx.Sort(f.Type())))
					x.st.assume(fmt.Sprintf("(forall ((r Int)) (! (=> (< r %s) (= (select %s r) (select %s r))) :pattern ((select %s r))))", x.st.alloc, nh, old, nh))
					x.st.heap[f] = nh
				}
			}
		}
		x.st.alloc = na
	}
	// results
	var rs []Val
	for i := 0; i < sig.Results().Len(); i++ {
		r := sig.Results().At(i)
		v := Val{x.ctx.Fresh("r_"+fn.Name(), x.ctx.Sort(r.Type())), r.Type()}
		x.readFacts(v)
		rs = append(rs, v)
		name := r.Name()
		if name == "" || name == "_" {
			name = fmt.Sprintf("res%d", i)
			if i < len(con.Results) {
				name = con.Results[i]
			}
		}
		ce.bound[name] = v
		if i == 0 {
			ce.bound["result"] = v
		}
	}
	for _, cl := range con.Clauses {
		if cl.Kind == "ensures" {
			x.st.assume(x.spec(ce, x.parseClause(cl)))
		}
		if cl.Kind == "assumes" {
			x.st.assume(x.spec(ce, x.parseClause(cl)))
			x.trustedUsed["assumed postcondition of "+short+" (not checked against its body): "+trunc(cl.Text, 160)] = true
		}
	}
	return rs
}

func shortKey(k string) string {
	k = strings.ReplaceAll(k, "(*", "")
	k = strings.ReplaceAll(k, ")", "")
	k = strings.ReplaceAll(k, "(", "")
	return k
}

// ---------- library models ----------

func (x *Exec) evalArgs(env *evalEnv, n *ast.CallExpr) []Val {
	var vs []Val
	for _, a := range n.Args {
		if fl, ok := a.(*ast.FuncLit); ok {
			vs = append(vs, Val{"0", nil})
			if x.inSpec == 0 && env.info != nil {
				x.execClosure(env, fl)
			}
			continue
		}
		vs = append(vs, x.expr(env, a))
	}
	if x.curLib != "" && x.curLibPos == n.Pos() {
		x.emitSites = append(x.emitSites, &emitSite{Ord: len(x.emitSites), Format: "@call:" + x.curLib, Args: vs, St: x.st.clone(), Pos: n.Pos()})
		x.curLib = ""
	}
	return vs
}

// execClosure: a function literal handed to a library function (regexp.ReplaceAllStringFunc, strings.Map, ...) is
// executed once, for arbitrary arguments, in the state at the call, so that the obligations inside it (emits, bounds,
// statement assertions) are generated. Variables it assigns are havoced afterwards; its results are not used.
func (x *Exec) execClosure(env *evalEnv, fl *ast.FuncLit) {
	cur := x.fr()
	fr := &frame{unit: cur.unit, con: cur.con, top: cur.top, loopOrd: cur.loopOrd, backLbl: cur.backLbl, env: cur.env}
	before := x.st
	st := x.st.clone()
	for _, f := range fl.Type.Params.List {
		for _, nm := range f.Names {
			if o, ok := env.info.Defs[nm].(*types.Var); ok {
				v := Val{x.ctx.Fresh(nm.Name, x.ctx.Sort(o.Type())), o.Type()}
				st.vars[o] = v
				sv := x.st
				x.st = st
				x.readFacts(v)
				x.st = sv
			}
		}
	}
	if fl.Type.Results != nil {
		i := 0
		for _, f := range fl.Type.Results.List {
			t := env.info.TypeOf(f.Type)
			n := len(f.Names)
			if n == 0 {
				n = 1
			}
			for k := 0; k < n; k++ {
				var r *types.Var
				if k < len(f.Names) {
					r, _ = env.info.Defs[f.Names[k]].(*types.Var)
				}
				if r == nil {
					r = types.NewVar(token.NoPos, cur.unit.Pkg.Types, fmt.Sprintf("clres%d", i), t)
				}
				st.vars[r] = Val{x.ctx.Zero(t), t}
				fr.results = append(fr.results, r)
				i++
			}
		}
	}
	x.frames = append(x.frames, fr)
	x.depth++
	f := x.block(fl.Body.List, st)
	x.depth--
	x.frames = x.frames[:len(x.frames)-1]
	if len(f.brk) > 0 || len(f.cont) > 0 || len(f.gotos) > 0 {
		x.fail(fl.Pos(), "dangling break/continue/goto out of a function literal")
	}
	// back in the caller: what the literal assigned (captured variables, heap) is unknown after an unknown number of calls
	ms := newModSet()
	x.collectMods(cur.unit, fl.Body, ms, map[*types.Func]bool{})
	x.st = before
	x.havocMods(ms, x.st)
	x.note("function literal passed to a library function: body executed once for arbitrary arguments in the state at the call")
}

func (x *Exec) freshResults(sig *types.Signature, prefix string) []Val {
	var rs []Val
	for i := 0; i < sig.Results().Len(); i++ {
		t := sig.Results().At(i).Type()
		v := Val{x.ctx.Fresh(prefix, x.ctx.Sort(t)), t}
		x.readFacts(v)
		rs = append(rs, v)
	}
	return rs
}

func (x *Exec) libCall(env *evalEnv, n *ast.CallExpr, fn *types.Func, full string, recvExpr ast.Expr) []Val {
	sig := fn.Type().(*types.Signature)
	// `libarg "pkg.Func" argN == E` clauses: the arguments of this call are recorded with the state at the call
	if fr := x.fr(); fr.con != nil && x.inSpec == 0 {
		for _, cl := range fr.con.Clauses {
			if cl.Kind == "libarg" && strings.HasPrefix(strings.TrimSpace(cl.Text), "\""+full+"\"") {
				x.curLib, x.curLibPos = full, n.Pos()
				break
			}
		}
	}
	switch full {
	case "fmt.Printf", "fmt.Println", "fmt.Print":
		args := x.evalArgs(env, n)
		if full == "fmt.Printf" && len(n.Args) > 0 {
			if bl, ok := ast.Unparen(n.Args[0]).(*ast.BasicLit); ok {
				x.emitSites = append(x.emitSites, &emitSite{Ord: len(x.emitSites), Format: bl.Value, Args: args, St: x.st.clone(), Pos: n.Pos()})
			}
		}
		x.effects = append(x.effects, effectEvent{Name: "print", Pos: n.Pos(), St: x.st})
		x.logPrint(n, args)
		return x.freshResults(sig, "fmt")
	case "fmt.Sprintf", "fmt.Sprint":
		args := x.evalArgs(env, n)
		defer func() { _ = args }()
		format := ""
		if full == "fmt.Sprintf" {
			if bl, ok := ast.Unparen(n.Args[0]).(*ast.BasicLit); ok {
				format = bl.Value
			} else if tv, ok := env.info.Types[n.Args[0]]; ok && tv.Value != nil {
				format = tv.Value.ExactString()
			} else {
				format = "?" + exprStr(n.Args[0])
			}
		}
		x.emitSites = append(x.emitSites, &emitSite{Ord: len(x.emitSites), Format: format, Args: args, St: x.st.clone(), Pos: n.Pos()})
		// fmt.Sprintf is a pure function of its arguments: the same format and values give the same text
		if t, ok := x.pureExt("fmt_"+fn.Name(), args, tString); ok {
			// the literal characters of the format are part of the result: a lower bound for its length
			if full == "fmt.Sprintf" {
				f, known := "", false
				if tv, ok := env.info.Types[n.Args[0]]; ok && tv.Value != nil {
					f, known = constant.StringVal(tv.Value), true
				} else {
					for lit, name := range x.ctx.strLits {
						if name == args[0].S {
							f, known = lit, true
						}
					}
				}
				if known {
					lit := 0
					for i := 0; i < len(f); i++ {
						if f[i] == '%' && i+1 < len(f) {
							if f[i+1] == '%' {
								lit++
							}
							i++
							continue
						}
						lit++
					}
					x.st.assume(fmt.Sprintf("(>= (strlen %s) %d)", t, lit))
				}
			}
			return []Val{{t, tString}}
		}
		r := Val{x.ctx.Fresh("sprintf", "Str"), tString}
		return []Val{r}
	case "fmt.Errorf", "errors.New":
		x.evalArgs(env, n)
		e := x.ctx.Fresh("err", "Iface")
		x.st.assume("(not (= (itag " + e + ") 0))")
		return []Val{{e, sig.Results().At(0).Type()}}
	case "strconv.Atoi":
		a := x.evalArgs(env, n)
		x.ctx.decl("fun:atoi", "(declare-fun atoi (Str) Int)")
		e := x.ctx.Fresh("err", "Iface")
		return []Val{{"(atoi " + a[0].S + ")", tInt}, {e, sig.Results().At(1).Type()}}
	case "unicode/utf8.DecodeRuneInString":
		a := x.evalArgs(env, n)
		x.st.assume("(>= (runeW " + a[0].S + " 0) 0)")
		x.st.assume("(=> (> (strlen " + a[0].S + ") 0) (and (>= (runeW " + a[0].S + " 0) 1) (<= (runeW " + a[0].S + " 0) (strlen " + a[0].S + "))))")
		x.trustedUsed["utf8.DecodeRuneInString (assumed: returns the first rune and a width in 1..len for a non-empty string)"] = true
		x.st.assume("(>= (runeAt " + a[0].S + " 0) 0)")
		// the decoder returns a Unicode scalar value (U+FFFD for an invalid encoding)
		x.st.assume(fmt.Sprintf("(and (<= (runeAt %s 0) 1114111) (not (and (<= 55296 (runeAt %s 0)) (<= (runeAt %s 0) 57343))))", a[0].S, a[0].S, a[0].S))
		return []Val{{"(runeAt " + a[0].S + " 0)", types.Typ[types.Rune]}, {"(runeW " + a[0].S + " 0)", tInt}}
	case "sort.SliceStable", "sort.Slice":
		return x.sortModel(env, n)
	}
	// pure library packages: results are deterministic (uninterpreted) functions of the arguments
	if fn.Pkg() != nil && recvExpr == nil {
		switch fn.Pkg().Path() {
		case "strings", "strconv", "unicode", "unicode/utf8":
			args := x.evalArgs(env, n)
			var rs []Val
			ok := true
			for i := 0; i < sig.Results().Len(); i++ {
				rt := sig.Results().At(i).Type()
				t, good := x.pureExt(fmt.Sprintf("%s_%s_%d", fn.Pkg().Name(), fn.Name(), i), args, rt)
				if !good {
					ok = false
					break
				}
				rs = append(rs, Val{t, rt})
			}
			if ok {
				// facts about the pure functions that the lexer's loops rely on: the end-of-input rune (-1) is in no
				// character class and in no string
				switch fn.Pkg().Name() + "." + fn.Name() {
				case "strings.ContainsRune":
					x.st.assume(implies("(< "+args[1].S+" 0)", not(rs[0].S)))
				case "unicode.IsLetter", "unicode.IsDigit", "unicode.IsSpace", "unicode.IsUpper", "unicode.IsLower":
					x.st.assume(implies("(< "+args[0].S+" 0)", not(rs[0].S)))
				}
				return rs
			}
		}
	}
	// default: evaluate args (for their obligations), return fresh values; external code is assumed not to touch repo state
	xargs := x.evalArgs(env, n)
	var xrecv *Val
	if recvExpr != nil {
		r := x.expr(env, recvExpr)
		xrecv = &r
	}
	x.logExt(shortFuncName(fn), xrecv, xargs)
	x.effects = append(x.effects, effectEvent{Name: "ext:" + full, Pos: n.Pos(), St: x.st})
	x.unmodelled = append(x.unmodelled, "external call "+full+" (results unconstrained, assumed not to modify repository state)")
	return x.freshResults(sig, "ext")
}

// logPrint: ghost output log. When the package declares "ghostvar tlen int", every fmt.Printf appends one entry:
// printed_fmt(tlen) is the format string, printed_int/printed_str(tlen, k) the k-th argument; tlen is incremented.
func (x *Exec) logPrint(n *ast.CallExpr, args []Val) {
	g, ok := x.st.ghost["tlen"]
	if !ok || len(args) == 0 {
		return
	}
	x.ctx.decl("fun:printed_fmt", "(declare-fun printed_fmt (Int) Str)")
	x.ctx.decl("fun:printed_int", "(declare-fun printed_int (Int Int) Int)")
	x.ctx.decl("fun:printed_str", "(declare-fun printed_str (Int Int) Str)")
	if args[0].Ty != nil && isString(args[0].Ty) {
		x.st.assume(eq("(printed_fmt "+g.S+")", args[0].S))
	}
	for k, a := range args[1:] {
		if a.Ty == nil {
			continue
		}
		switch x.ctx.Sort(a.Ty) {
		case "Int":
			x.st.assume(eq(fmt.Sprintf("(printed_int %s %d)", g.S, k), a.S))
		case "Str":
			x.st.assume(eq(fmt.Sprintf("(printed_str %s %d)", g.S, k), a.S))
		}
	}
	x.st.ghost["tlen"] = Val{"(+ " + g.S + " 1)", tInt}
}

// sortModel: sort.SliceStable(x, less): x becomes a permutation of itself (assumed contract)
func (x *Exec) sortModel(env *evalEnv, n *ast.CallExpr) []Val {
	s := x.expr(env, n.Args[0])
	st, ok := s.Ty.Underlying().(*types.Slice)
	if !ok {
		x.fail(n.Pos(), "UNSUPPORTED sort of %s", s.Ty)
	}
	es := x.ctx.Sort(st.Elem())
	x.fresh2++
	pi := fmt.Sprintf("perm!%d", x.fresh2)
	pinv := fmt.Sprintf("perminv!%d", x.fresh2)
	x.ctx.decls = append(x.ctx.decls, fmt.Sprintf("(declare-fun %s (Int) Int)", pi), fmt.Sprintf("(declare-fun %s (Int) Int)", pinv))
	arr := x.ctx.Fresh("sorted", fmt.Sprintf("(Array Int %s)", es))
	ln := x.ctx.slLen(s)
	x.st.assume(fmt.Sprintf("(forall ((k Int)) (! (=> (and (<= 0 k) (< k %s)) (and (<= 0 (%s k)) (< (%s k) %s) (= (%s (%s k)) k) (= (select %s k) (select %s (%s k))))) :pattern ((%s k)) :pattern ((select %s k))))", ln, pi, pi, ln, pinv, pi, arr, x.ctx.slArr(s), pi, pi, arr))
	x.st.assume(fmt.Sprintf("(forall ((j Int)) (! (=> (and (<= 0 j) (< j %s)) (and (<= 0 (%s j)) (< (%s j) %s) (= (%s (%s j)) j) (= (select %s (%s j)) (select %s j)))) :pattern ((%s j)) :pattern ((select %s j))))", ln, pinv, pinv, ln, pi, pinv, arr, pinv, x.ctx.slArr(s), pinv, x.ctx.slArr(s)))
	x.assignTo(n.Args[0], Val{x.ctx.mkSlice(s.Ty, arr, ln, x.ctx.slNil(s), x.ctx.slBid(s)), s.Ty})
	x.st.ghost["sortperm"] = Val{pi, nil}
	// assumed: the result is ordered by less (evaluated on the sorted slice): forall i<j: !less(j,i)
	if fl, ok := n.Args[1].(*ast.FuncLit); ok && len(fl.Type.Params.List) >= 1 {
		var names []string
		for _, f := range fl.Type.Params.List {
			for _, nm := range f.Names {
				names = append(names, nm.Name)
			}
		}
		if len(names) == 2 {
			func() {
				defer func() {
					if r := recover(); r != nil {
						if _, isEval := r.(evalError); !isEval {
							panic(r)
						}
						x.note("sort: the less function could not be turned into a term; only the permutation property is assumed")
					}
				}()
				x.qcount++
				qi, qj := fmt.Sprintf("i!q%d", x.qcount), fmt.Sprintf("j!q%d", x.qcount)
				e2 := &evalEnv{info: env.info, pkg: env.pkg, bound: map[string]Val{names[0]: {qj, tInt}, names[1]: {qi, tInt}}, spec: true, old: env.old}
				x.inSpec++
				t, ok := x.retTerm(e2, fl.Body.List, "", false)
				x.inSpec--
				if ok {
					x.st.assume(fmt.Sprintf("(forall ((%s Int) (%s Int)) (=> (and (<= 0 %s) (< %s %s) (< %s %s)) (not %s)))", qi, qj, qi, qi, qj, qj, ln, t))
				}
			}()
		}
	}
	x.trustedUsed["sort.SliceStable (assumed: result is a permutation of the input, ordered by the less function)"] = true
	return nil
}

// freshBid: identity of a newly allocated backing array (drawn from the allocation counter)
func (x *Exec) freshBid() string {
	if x.inSpec > 0 {
		return "0"
	}
	return x.allocObj()
}

// appendBid: append writes in place when there is spare capacity (capacity is not modelled: either case is possible)
func (x *Exec) appendBid(s Val) string {
	if x.inSpec > 0 {
		return x.ctx.slBid(s)
	}
	b := x.ctx.Fresh("bid", "Int")
	// a nil slice has no array: appending to it always allocates
	x.st.assume("(or (and (not " + x.ctx.slNil(s) + ") (= " + b + " " + x.ctx.slBid(s) + ")) (>= " + b + " " + x.st.alloc + "))")
	na := x.ctx.Fresh("alloc", "Int")
	x.st.assume("(> " + na + " " + b + ")")
	x.st.assume("(>= " + na + " " + x.st.alloc + ")")
	x.st.alloc = na
	return b
}

// pureExt: uninterpreted function application for a pure external function (declared on demand by name and sorts)
func (x *Exec) pureExt(name string, args []Val, rt types.Type) (string, bool) {
	var sorts, terms []string
	for _, a := range args {
		if a.Ty == nil {
			return "", false
		}
		sorts = append(sorts, x.ctx.Sort(a.Ty))
		terms = append(terms, a.S)
	}
	fname := "ext_" + sanitize(name) + "_" + mangle(strings.Join(sorts, "_"))
	if !x.ctx.declared["fun:"+fname] && name == "strings_HasPrefix_0" {
		// a prefix is not longer than the string
		x.ctx.axioms = append(x.ctx.axioms, condAxiom{[]string{"(" + fname + " "}, fmt.Sprintf("(forall ((s Str) (p Str)) (! (=> (%s s p) (>= (strlen s) (strlen p))) :pattern ((%s s p))))", fname, fname)})
	}
	x.ctx.decl("fun:"+fname, fmt.Sprintf("(declare-fun %s (%s) %s)", fname, strings.Join(sorts, " "), x.ctx.Sort(rt)))
	if len(terms) == 0 {
		return fname, true
	}
	return "(" + fname + " " + strings.Join(terms, " ") + ")", true
}

// logExt: ghost log of calls into external packages (when the package declares "ghostvar xlen int"):
// xlog_fn(i) is the callee, xlog_recv(i) the receiver, xlog_str/int(i, k) the k-th string / integer argument
func (x *Exec) logExt(name string, recv *Val, args []Val) {
	g, ok := x.st.ghost["xlen"]
	if !ok {
		return
	}
	x.ctx.decl("fun:xlog_fn", "(declare-fun xlog_fn (Int) Str)")
	x.ctx.decl("fun:xlog_recv", "(declare-fun xlog_recv (Int) Int)")
	x.ctx.decl("fun:xlog_int", "(declare-fun xlog_int (Int Int) Int)")
	x.ctx.decl("fun:xlog_str", "(declare-fun xlog_str (Int Int) Str)")
	x.st.assume(eq("(xlog_fn "+g.S+")", x.ctx.StrLit(name)))
	if recv != nil && recv.Ty != nil && x.ctx.Sort(recv.Ty) == "Int" {
		x.st.assume(eq("(xlog_recv "+g.S+")", recv.S))
	}
	for k, a := range args {
		if a.Ty == nil {
			continue
		}
		switch x.ctx.Sort(a.Ty) {
		case "Int":
			x.st.assume(eq(fmt.Sprintf("(xlog_int %s %d)", g.S, k), a.S))
		case "Str":
			x.st.assume(eq(fmt.Sprintf("(xlog_str %s %d)", g.S, k), a.S))
		case "Mp_Str_Str":
			x.ctx.decl("fun:xlog_mapss", "(declare-fun xlog_mapss (Int Int) Mp_Str_Str)")
			x.st.assume(eq(fmt.Sprintf("(xlog_mapss %s %d)", g.S, k), a.S))
		}
	}
	x.st.ghost["xlen"] = Val{"(+ " + g.S + " 1)", tInt}
}
