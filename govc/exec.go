package main

import (
	"os"
	"fmt"
	"go/ast"
	"go/token"
	"go/types"
	"sort"
	"strings"
)

type flow struct {
	next  *State
	brk   map[string][]*State
	cont  map[string][]*State
	gotos map[string][]*State
	ret   []*State
}

func (f *flow) absorb(g flow) {
	for k, v := range g.brk {
		if f.brk == nil {
			f.brk = map[string][]*State{}
		}
		f.brk[k] = append(f.brk[k], v...)
	}
	for k, v := range g.cont {
		if f.cont == nil {
			f.cont = map[string][]*State{}
		}
		f.cont[k] = append(f.cont[k], v...)
	}
	for k, v := range g.gotos {
		if f.gotos == nil {
			f.gotos = map[string][]*State{}
		}
		f.gotos[k] = append(f.gotos[k], v...)
	}
	f.ret = append(f.ret, g.ret...)
}

type frame struct {
	unit     *FuncUnit
	env      *evalEnv
	results  []*types.Var
	con      *Contract
	loopOrd  map[ast.Node]int
	backLbl  map[string]bool // labels that are targets of backward gotos
	top      bool
}

type Exec struct {
	v          *Verifier
	ctx        *Ctx
	unitName   string
	st         *State
	entry      *State
	loopPre    *State
	obls       []*Obligation
	notes      []string
	siteOrd    map[string]map[string]int
	siteVisits map[string]int
	inSpec     int
	qcount     int
	expanding  map[*types.Func]bool
	inlining   map[*types.Func]bool
	usedSpecFns map[string]bool
	frames     []*frame
	emitSites  []*emitSite
	curLib     string
	curLibPos  token.Pos
	mayPanic   []string
	panicsWhen string // evaluated in entry state ("" if none)
	depth      int
	unmodelled []string
	trustedUsed map[string]bool
	effects    []effectEvent
	ghostSorts map[string]string
	lemmasUsed map[string]bool
	fresh2     int
	inputObs   []obsTerm
	stmtHits   map[int]int
	boxed      map[types.Object]bool
	orderOnly  bool
	loopHead   *State
}

type emitSite struct {
	Ord    int
	Format string
	Args   []Val
	St     *State
	Pos    token.Pos
}

type effectEvent struct {
	Name string
	Pos  token.Pos
	St   *State
}

func (x *Exec) fr() *frame { return x.frames[len(x.frames)-1] }

// ---------- blocks & statements ----------

func (x *Exec) block(stmts []ast.Stmt, st *State) flow {
	var out flow
	cur := st
	for _, s := range stmts {
		// label join for forward gotos
		if ls, ok := s.(*ast.LabeledStmt); ok && !x.fr().backLbl[ls.Label.Name] {
			if in := out.gotos[ls.Label.Name]; len(in) > 0 {
				cur = x.mergeAll(append([]*State{cur}, in...))
				delete(out.gotos, ls.Label.Name)
			}
		}
		if cur == nil {
			break
		}
		f := x.stmt(s, cur)
		out.absorb(f)
		cur = f.next
	}
	out.next = cur
	return out
}

func (x *Exec) env() *evalEnv { return x.fr().env }

// stmtAsserts: "before_stmt"/"after_stmt" clauses anchored at a statement by a fragment of its source text
func (x *Exec) stmtAsserts(kind string, s ast.Stmt, st *State) {
	fr := x.fr()
	if !fr.top || fr.con == nil || st == nil {
		return
	}
	switch s.(type) {
	case *ast.BlockStmt, *ast.LabeledStmt:
		return
	}
	var txt string
	for k, cl := range fr.con.Clauses {
		if cl.Kind != kind {
			continue
		}
		if txt == "" {
			txt = strings.Join(strings.Fields(exprStr(s)), " ")
		}
		t := strings.TrimSpace(cl.Text)
		if !strings.HasPrefix(t, "\"") && !strings.HasPrefix(t, "`") {
			panic(evalError{fmt.Sprintf("%s:%d: BINDING: %s needs a quoted statement fragment", cl.File, cl.Line, kind)})
		}
		end := strings.Index(t[1:], t[:1])
		frag := t[1 : 1+end]
		if !strings.HasPrefix(txt, frag) {
			continue
		}
		body := strings.TrimSpace(t[2+end:])
		n, err := parseSpec(body)
		if err != nil {
			panic(evalError{fmt.Sprintf("%s:%d: BINDING: %v", cl.File, cl.Line, err)})
		}
		x.st = st
		x.stmtHits[k]++
		pos := s.Pos()
		if kind == "after_stmt" {
			pos = s.End()
		}
		g := x.spec(x.specEnvAt(pos), n)
		x.addObl("assert", fmt.Sprintf("%s#%d.%d", kind, k, x.stmtHits[k]), s.Pos(), g, cl.Text, cl.Props, "")
		st.assume(g)
	}
}

func (x *Exec) stmt(s ast.Stmt, st *State) flow {
	x.stmtAsserts("before_stmt", s, st)
	f := x.stmt1(s, st)
	x.stmtAsserts("after_stmt", s, f.next)
	return f
}

func (x *Exec) stmt1(s ast.Stmt, st *State) flow {
	x.st = st
	env := x.env()
	switch n := s.(type) {
	case *ast.BlockStmt:
		return x.block(n.List, st)
	case *ast.EmptyStmt:
		return flow{next: st}
	case *ast.ExprStmt:
		if call, ok := ast.Unparen(n.X).(*ast.CallExpr); ok {
			if id, ok := call.Fun.(*ast.Ident); ok && id.Name == "panic" && env.info != nil {
				if _, isBuiltin := env.info.Uses[id].(*types.Builtin); isBuiltin {
					x.doPanic(call, st)
					return flow{}
				}
			}
			x.call(env, call)
			return flow{next: x.st}
		}
		x.expr(env, n.X)
		return flow{next: x.st}
	case *ast.AssignStmt:
		x.assign(n)
		return flow{next: x.st}
	case *ast.IncDecStmt:
		cur := x.expr(env, n.X)
		op := "+"
		if n.Tok == token.DEC {
			op = "-"
		}
		x.assignTo(n.X, Val{"(" + op + " " + cur.S + " 1)", cur.Ty})
		return flow{next: x.st}
	case *ast.DeclStmt:
		gd := n.Decl.(*ast.GenDecl)
		for _, sp := range gd.Specs {
			vs, ok := sp.(*ast.ValueSpec)
			if !ok {
				continue
			}
			if len(vs.Values) == 1 && len(vs.Names) > 1 {
				vals := x.call(env, vs.Values[0].(*ast.CallExpr))
				for i, nm := range vs.Names {
					x.define(nm, vals[i])
				}
				continue
			}
			for i, nm := range vs.Names {
				o := env.info.Defs[nm]
				if o == nil {
					continue
				}
				var v Val
				if i < len(vs.Values) {
					v = x.exprAs(env, vs.Values[i], o.Type())
				} else {
					v = Val{x.ctx.Zero(o.Type()), o.Type()}
				}
				if x.boxed[o] {
					ref := x.allocObj()
					x.storeCell(ref, v, o.Type())
					x.st.vars[o] = Val{ref, types.NewPointer(o.Type())}
				} else {
					x.st.vars[o] = Val{v.S, o.Type()}
				}
			}
		}
		return flow{next: x.st}
	case *ast.ReturnStmt:
		fr := x.fr()
		if len(n.Results) == 1 && len(fr.results) > 1 {
			vals := x.call(env, n.Results[0].(*ast.CallExpr))
			for i, r := range fr.results {
				x.st.vars[r] = x.convertTo(vals[i], r.Type())
			}
		} else if len(n.Results) > 0 {
			var vals []Val
			for i, e := range n.Results {
				vals = append(vals, x.exprAs(env, e, fr.results[i].Type()))
			}
			for i, r := range fr.results {
				x.st.vars[r] = Val{vals[i].S, r.Type()}
			}
		}
		return flow{ret: []*State{x.st}}
	case *ast.IfStmt:
		return x.ifStmt(n, st)
	case *ast.ForStmt:
		return x.forStmt(n, st, "")
	case *ast.RangeStmt:
		return x.rangeStmt(n, st, "")
	case *ast.SwitchStmt:
		return x.switchStmt(n, st, "")
	case *ast.TypeSwitchStmt:
		x.fail(n.Pos(), "UNSUPPORTED type switch")
	case *ast.LabeledStmt:
		lbl := n.Label.Name
		if x.fr().backLbl[lbl] {
			return x.gotoLoop(n, st)
		}
		switch in := n.Stmt.(type) {
		case *ast.ForStmt:
			return x.forStmt(in, st, lbl)
		case *ast.RangeStmt:
			return x.rangeStmt(in, st, lbl)
		case *ast.SwitchStmt:
			return x.switchStmt(in, st, lbl)
		}
		return x.stmt(n.Stmt, st)
	case *ast.BranchStmt:
		lbl := ""
		if n.Label != nil {
			lbl = n.Label.Name
		}
		switch n.Tok {
		case token.BREAK:
			return flow{brk: map[string][]*State{lbl: {st}}}
		case token.CONTINUE:
			return flow{cont: map[string][]*State{lbl: {st}}}
		case token.GOTO:
			if x.fr().backLbl[lbl] {
				return flow{cont: map[string][]*State{"goto:" + lbl: {st}}}
			}
			return flow{gotos: map[string][]*State{lbl: {st}}}
		}
		x.fail(n.Pos(), "UNSUPPORTED branch %s", n.Tok)
	case *ast.DeferStmt:
		x.note("defer ignored (runs at function exit): " + exprStr(n.Call))
		x.effects = append(x.effects, effectEvent{Name: "defer:" + exprStr(n.Call.Fun), Pos: n.Pos(), St: x.st})
		return flow{next: x.st}
	case *ast.GoStmt:
		x.fail(n.Pos(), "UNSUPPORTED go statement")
	case *ast.SendStmt:
		// A-seq: a send on the unbuffered token channel completes when the receiver takes the value (or blocks for ever
		// once the receiver has stopped - then the main goroutine has finished). No state change in the sender.
		ch := x.expr(env, n.Chan)
		sv := x.expr(env, n.Value)
		x.note("channel send modelled as a completed hand-over (assumption A-seq)")
		if g, ok := x.st.ghost["sent"]; ok {
			// sender-side log: the k-th send delivers spec_sent(k)
			if ct, ok := ch.Ty.Underlying().(*types.Chan); ok {
				sv = x.convertTo(sv, ct.Elem())
				x.ctx.decl("fun:sf_spec_sent", fmt.Sprintf("(declare-fun sf_spec_sent (Int) %s)", x.ctx.Sort(ct.Elem())))
				x.st.assume(eq("(sf_spec_sent "+g.S+")", sv.S))
			}
			x.st.ghost["sent"] = Val{"(+ " + g.S + " 1)", tInt}
		}
		return flow{next: x.st}
	}
	x.fail(s.Pos(), "UNSUPPORTED statement %T", s)
	return flow{}
}

func (x *Exec) doPanic(call *ast.CallExpr, st *State) {
	// allowed panic? first string literal of the argument must start with an allowed prefix
	msg := firstStringLit(call.Args[0])
	for _, p := range x.mayPanic {
		if strings.HasPrefix(msg, p) {
			x.effects = append(x.effects, effectEvent{Name: "panic:" + msg, Pos: call.Pos(), St: st})
			return
		}
	}
	if x.panicsWhen != "" {
		x.addObl("panic_only_when", "", call.Pos(), x.panicsWhen, "panic("+trunc(msg, 40)+") only under panics_when", nil, x.env().prefix)
		return
	}
	x.addObl("nopanic", "", call.Pos(), "false", "panic("+trunc(msg, 40)+") must be unreachable", nil, x.env().prefix)
}

func firstStringLit(e ast.Expr) string {
	res := ""
	ast.Inspect(e, func(n ast.Node) bool {
		if res != "" {
			return false
		}
		if bl, ok := n.(*ast.BasicLit); ok && bl.Kind == token.STRING {
			res = strings.Trim(bl.Value, "\"`")
			return false
		}
		return true
	})
	return res
}

func (x *Exec) define(id *ast.Ident, v Val) {
	if id.Name == "_" {
		return
	}
	o := x.env().info.ObjectOf(id)
	if o == nil {
		x.fail(id.Pos(), "no object for %s", id.Name)
	}
	vv := x.convertTo(v, o.Type())
	if x.boxed[o] {
		ref := x.allocObj()
		x.storeCell(ref, vv, o.Type())
		x.st.vars[o] = Val{ref, types.NewPointer(o.Type())}
		return
	}
	x.st.vars[o] = Val{vv.S, o.Type()}
}

func (x *Exec) assign(n *ast.AssignStmt) {
	env := x.env()
	if n.Tok != token.ASSIGN && n.Tok != token.DEFINE {
		// op-assign
		cur := x.expr(env, n.Lhs[0])
		r := x.expr(env, n.Rhs[0])
		var v Val
		switch n.Tok {
		case token.ADD_ASSIGN:
			if isString(cur.Ty) {
				v = Val{"(str_concat " + cur.S + " " + r.S + ")", cur.Ty}
			} else {
				v = Val{"(+ " + cur.S + " " + r.S + ")", cur.Ty}
			}
		case token.SUB_ASSIGN:
			v = Val{"(- " + cur.S + " " + r.S + ")", cur.Ty}
		case token.MUL_ASSIGN:
			v = Val{"(* " + cur.S + " " + r.S + ")", cur.Ty}
		default:
			x.fail(n.Pos(), "UNSUPPORTED assignment operator %s", n.Tok)
		}
		x.assignTo(n.Lhs[0], v)
		return
	}
	var vals []Val
	if len(n.Rhs) == 1 && len(n.Lhs) > 1 {
		switch r := ast.Unparen(n.Rhs[0]).(type) {
		case *ast.CallExpr:
			vals = x.call(env, r)
		case *ast.IndexExpr: // v, ok := m[k]
			m := x.expr(env, r.X)
			mt, ok := m.Ty.Underlying().(*types.Map)
			if !ok {
				x.fail(n.Pos(), "comma-ok on non-map")
			}
			k := x.convertTo(x.expr(env, r.Index), mt.Key())
			vals = []Val{x.expr(env, r), {x.mapHas(m, k), tBool}}
		case *ast.UnaryExpr:
			if r.Op != token.ARROW {
				x.fail(n.Pos(), "UNSUPPORTED multi-value assignment")
			}
			v, ok := x.recv(env, r)
			vals = []Val{v, ok}
		case *ast.TypeAssertExpr:
			v := x.expr(env, r.X)
			t := x.resolveType(env, r.Type)
			ok := eq("(itag "+v.S+")", fmt.Sprint(x.ctx.TypeTag(t)))
			got := x.fromIface(v, t)
			vals = []Val{{ite(ok, got.S, x.ctx.Zero(t)), t}, {ok, tBool}}
		default:
			x.fail(n.Pos(), "UNSUPPORTED multi-value assignment")
		}
	} else {
		for i, r := range n.Rhs {
			var want types.Type
			if n.Tok == token.ASSIGN {
				want = x.typeOf(env, n.Lhs[i])
			} else if id, ok := n.Lhs[i].(*ast.Ident); ok && id.Name != "_" {
				if o := env.info.ObjectOf(id); o != nil {
					want = o.Type()
				}
			}
			if want != nil {
				vals = append(vals, x.exprAs(env, r, want))
			} else {
				vals = append(vals, x.expr(env, r))
			}
		}
	}
	for i, l := range n.Lhs {
		if id, ok := l.(*ast.Ident); ok {
			if id.Name == "_" {
				continue
			}
			if n.Tok == token.DEFINE {
				x.define(id, vals[i])
				continue
			}
		}
		x.assignTo(l, vals[i])
	}
}

// assignTo stores v into the location denoted by lhs
func (x *Exec) assignTo(lhs ast.Expr, v Val) {
	env := x.env()
	switch l := ast.Unparen(lhs).(type) {
	case *ast.Ident:
		if l.Name == "_" {
			return
		}
		o := x.lookupObj(env, l)
		vv, ok := o.(*types.Var)
		if !ok {
			x.fail(l.Pos(), "assignment to non-variable %s", l.Name)
		}
		c := x.named(x.convertTo(v, vv.Type()), vv.Name(), 400)
		if x.boxed[vv] {
			x.storeCell(x.st.vars[vv].S, c, vv.Type())
			return
		}
		x.st.vars[vv] = Val{c.S, vv.Type()}
	case *ast.SelectorExpr:
		if id, ok := l.X.(*ast.Ident); ok {
			if pn, ok := x.lookupObj(env, id).(*types.PkgName); ok {
				gv, ok := pn.Imported().Scope().Lookup(l.Sel.Name).(*types.Var)
				if !ok {
					x.fail(l.Pos(), "assignment to %s.%s", id.Name, l.Sel.Name)
				}
				x.st.vars[gv] = Val{x.convertTo(v, gv.Type()).S, gv.Type()}
				return
			}
		}
		base := x.expr(env, l.X)
		idx, _ := x.fieldPath(env, l, base.Ty)
		x.assignField(l, l.X, base, idx, v)
	case *ast.IndexExpr:
		base := x.expr(env, l.X)
		switch u := base.Ty.Underlying().(type) {
		case *types.Slice:
			base = x.named(base, "sl", 80)
			i := x.expr(env, l.Index)
			x.oblige(env, "bounds", l.Pos(), and("(<= 0 "+i.S+")", "(< "+i.S+" "+x.ctx.slLen(base)+")"), "index in range: "+exprStr(l))
			c := x.convertTo(v, u.Elem())
			nb := Val{x.ctx.mkSlice(base.Ty, fmt.Sprintf("(store %s %s %s)", x.ctx.slArr(base), i.S, c.S), x.ctx.slLen(base), x.ctx.slNil(base), x.ctx.slBid(base)), base.Ty}
			x.assignTo(l.X, nb)
		case *types.Array:
			i := x.expr(env, l.Index)
			x.oblige(env, "bounds", l.Pos(), and("(<= 0 "+i.S+")", fmt.Sprintf("(< %s %d)", i.S, u.Len())), "index in range: "+exprStr(l))
			c := x.convertTo(v, u.Elem())
			x.assignTo(l.X, Val{fmt.Sprintf("(store %s %s %s)", base.S, i.S, c.S), base.Ty})
		case *types.Map:
			k := x.convertTo(x.expr(env, l.Index), u.Key())
			c := x.convertTo(v, u.Elem())
			x.assignTo(l.X, x.mapStore(base, k, c))
		default:
			x.fail(l.Pos(), "UNSUPPORTED indexed assignment on %s", base.Ty)
		}
	case *ast.StarExpr:
		p := x.expr(env, l.X)
		el, _ := ptrElem(p.Ty)
		x.nilCheck(env, l.Pos(), p)
		x.storeCell(p.S, x.convertTo(v, el), el)
	default:
		x.fail(lhs.Pos(), "UNSUPPORTED assignment target %T", lhs)
	}
}

func (x *Exec) assignField(pos ast.Node, baseExpr ast.Expr, base Val, idx []int, v Val) {
	env := x.env()
	if len(idx) == 0 {
		x.fail(pos.Pos(), "empty field path")
	}
	i := idx[0]
	if el, ok := ptrElem(base.Ty); ok {
		st, _ := structOf(el)
		f := st.Field(i)
		x.nilCheck(env, pos.Pos(), base)
		if len(idx) == 1 {
			c := x.convertTo(v, f.Type())
			x.setHeap(f, fmt.Sprintf("(store %s %s %s)", x.heapOf(x.st, f), base.S, c.S))
			return
		}
		inner := Val{fmt.Sprintf("(select %s %s)", x.heapOf(x.st, f), base.S), f.Type()}
		if _, isPtr := ptrElem(f.Type()); isPtr {
			x.assignField(pos, nil, inner, idx[1:], v)
			return
		}
		// embedded struct value inside heap object
		nv := x.updStruct(inner, idx[1:], v, pos)
		x.setHeap(f, fmt.Sprintf("(store %s %s %s)", x.heapOf(x.st, f), base.S, nv.S))
		return
	}
	// struct value: update and write back to the base location
	if baseExpr == nil {
		x.fail(pos.Pos(), "UNSUPPORTED nested value field assignment")
	}
	nv := x.updStruct(base, idx, v, pos)
	x.assignTo(baseExpr, nv)
}

// setHeap writes a new term for a heap field; a large term is replaced by a named constant (see named)
func (x *Exec) setHeap(f *types.Var, term string) {
	if len(term) > 600 && x.inSpec == 0 {
		c := x.ctx.Fresh(x.heapName(f), fmt.Sprintf("(Array Int %s)", x.ctx.Sort(f.Type())))
		x.st.assume(eq(c, term))
		term = c
	}
	x.st.heap[f] = term
}

// named introduces a constant for a large term (definitional equality on the current path), so that repeated use of the
// term - one copy per field in a struct update - does not multiply the size of the verification condition
func (x *Exec) named(v Val, hint string, limit int) Val {
	if len(v.S) <= limit || v.Ty == nil || x.inSpec > 0 {
		return v
	}
	c := x.ctx.Fresh(sanitize(hint), x.ctx.Sort(v.Ty))
	x.st.assume(eq(c, v.S))
	return Val{c, v.Ty}
}

// updStruct returns base with the nested field path replaced by v (value structs only)
func (x *Exec) updStruct(base Val, idx []int, v Val, pos ast.Node) Val {
	st, ok := structOf(base.Ty)
	if !ok {
		x.fail(pos.Pos(), "field update on non-struct %s", base.Ty)
	}
	srt := x.ctx.Sort(base.Ty)
	base = x.named(base, "sv", 40)
	var parts []string
	for j := 0; j < st.NumFields(); j++ {
		f := st.Field(j)
		cur := Val{fmt.Sprintf("(%s.%s %s)", srt, sanitize(f.Name()), base.S), f.Type()}
		if j == idx[0] {
			if len(idx) == 1 {
				parts = append(parts, x.convertTo(v, f.Type()).S)
			} else if _, isPtr := ptrElem(f.Type()); isPtr {
				x.assignField(pos, nil, cur, idx[1:], v)
				parts = append(parts, cur.S)
			} else {
				parts = append(parts, x.updStruct(cur, idx[1:], v, pos).S)
			}
		} else {
			parts = append(parts, cur.S)
		}
	}
	return Val{fmt.Sprintf("(mk_%s %s)", srt, strings.Join(parts, " ")), base.Ty}
}

// ---------- if / switch ----------

func (x *Exec) ifStmt(n *ast.IfStmt, st *State) flow {
	var out flow
	cur := st
	if n.Init != nil {
		f := x.stmt(n.Init, cur)
		out.absorb(f)
		cur = f.next
		if cur == nil {
			return out
		}
	}
	x.st = cur
	c := x.expr(x.env(), n.Cond)
	cur = x.st
	s1 := cur.clone()
	s1.assume(c.S)
	s2 := cur.clone()
	s2.assume(not(c.S))
	f1 := x.block(n.Body.List, s1)
	out.absorb(f1)
	var n2 *State
	if n.Else != nil {
		f2 := x.stmt(n.Else, s2)
		out.absorb(f2)
		n2 = f2.next
	} else {
		n2 = s2
	}
	out.next = x.merge(f1.next, n2)
	return out
}

func (x *Exec) switchStmt(n *ast.SwitchStmt, st *State, label string) flow {
	var out flow
	cur := st
	if n.Init != nil {
		f := x.stmt(n.Init, cur)
		out.absorb(f)
		cur = f.next
		if cur == nil {
			return out
		}
	}
	x.st = cur
	env := x.env()
	var tag *Val
	if n.Tag != nil {
		t := x.expr(env, n.Tag)
		tag = &t
	}
	cur = x.st
	var exits []*State
	rest := cur
	// entry states in source order of the case expressions; the default clause is entered when none matches
	entry := map[*ast.CaseClause]*State{}
	var dflt *ast.CaseClause
	for _, cs := range n.Body.List {
		cc := cs.(*ast.CaseClause)
		if cc.List == nil {
			dflt = cc
			continue
		}
		x.st = rest
		var conds []string
		for _, e := range cc.List {
			v := x.expr(env, e)
			if tag != nil {
				conds = append(conds, x.eqVals(*tag, v))
			} else {
				conds = append(conds, v.S)
			}
		}
		rest = x.st
		c := or(conds...)
		sIn := rest.clone()
		sIn.assume(c)
		sOut := rest.clone()
		sOut.assume(not(c))
		entry[cc] = sIn
		rest = sOut
	}
	if dflt != nil {
		entry[dflt] = rest
	} else {
		exits = append(exits, rest)
	}
	// bodies in source order; a clause ending in fallthrough continues in the body of the next clause
	var fall *State
	for _, cs := range n.Body.List {
		cc := cs.(*ast.CaseClause)
		in := entry[cc]
		if fall != nil {
			in = x.mergeAll([]*State{in, fall})
			fall = nil
		}
		body := cc.Body
		ft := hasFallthrough(body)
		if ft {
			body = body[:len(body)-1]
		}
		f := x.block(body, in)
		if ft {
			fall = f.next
		} else {
			exits = append(exits, f.next)
		}
		exits = append(exits, f.brk[""]...)
		delete(f.brk, "")
		if label != "" {
			exits = append(exits, f.brk[label]...)
			delete(f.brk, label)
		}
		out.absorb(f)
	}
	out.next = x.mergeAll(exits)
	return out
}

func hasFallthrough(b []ast.Stmt) bool {
	if len(b) == 0 {
		return false
	}
	bs, ok := b[len(b)-1].(*ast.BranchStmt)
	return ok && bs.Tok == token.FALLTHROUGH
}

// ---------- loops ----------

type loopSpec struct {
	ord   int
	node  ast.Node
	label string
	mods  *modSet
	// head evaluates the loop condition at the (havoced) loop head; returns states for enter / exit
	head func(st *State) (*State, *State)
	body func(st *State) flow
	post func(st *State) *State // executed on back edges (may be nil)
	extraBack string             // additional cont label treated as back edge (goto loops)
	autoInv func(st *State) []string
	pureCond func(st *State) string // loop condition evaluated in a back-edge state (only when it has no calls)
}

func (x *Exec) loopClauses(ord int, kind string) []*Clause {
	fr := x.fr()
	if fr.con == nil || x.orderOnly && kind != "invariant" {
		return nil
	}
	var out []*Clause
	for _, cl := range fr.con.Clauses {
		if cl.Kind == "loop:"+kind && cl.Loop == ord {
			if len(cl.Props) > 0 && x.v.curProp != "" && !hasAnyProp(cl.Props, x.v.curProps) && (kind == "invariant" || kind == "after") {
				continue // clause belongs to another property: neither assumed nor checked in this run
			}
			out = append(out, cl)
		}
	}
	return out
}

func (x *Exec) specEnvAt(pos token.Pos) *evalEnv {
	fr := x.fr()
	e := &evalEnv{pkg: fr.unit.Pkg.Types, scope: fr.unit.Scope, pos: pos, old: x.entry, spec: true, bound: map[string]Val{}}
	return e
}

func (x *Exec) runLoop(ls *loopSpec, st *State) flow {
	var out flow
	fr := x.fr()
	invs := x.loopClauses(ls.ord, "invariant")
	decs := x.loopClauses(ls.ord, "decreases")
	savedPre := x.loopPre
	pre := st.clone()
	x.loopPre = pre
	defer func() { x.loopPre = savedPre }()
	lname := fmt.Sprintf("inv%d", ls.ord)
	bodyPos := ls.node.Pos()
	switch nd := ls.node.(type) {
	case *ast.ForStmt:
		bodyPos = nd.Body.Lbrace + 1
	case *ast.RangeStmt:
		bodyPos = nd.Body.Lbrace + 1
	}
	if !fr.top {
		invs, decs = nil, nil
	}
	// 1. init
	x.st = st
	for k, cl := range invs {
		g := x.spec(x.specEnvAt(bodyPos), x.parseClause(cl))
		x.addObl("inv.init", fmt.Sprintf("%s.init#%d", lname, k), ls.node.Pos(), g, cl.Text, cl.Props, "")
		x.st.assume(g)
	}
	// 2. havoc
	h := x.st.clone()
	x.st = h
	x.havocMods(ls.mods, h)
	if ls.autoInv != nil {
		for _, f := range ls.autoInv(h) {
			h.assume(f)
		}
	}
	for _, cl := range invs {
		g := x.spec(x.specEnvAt(bodyPos), x.parseClause(cl))
		h.assume(g)
	}
	if fr.top && fr.con != nil {
		x.st = h
		x.applyUses(fr.unit, fr.con.Clauses, "loop:use", ls.ord, x.specEnvAt(bodyPos))
	}
	// automatic frame invariants: a field the function may modify only on listed objects keeps its entry value on all
	// other pre-existing objects throughout the loop (assumed at the head, checked at every back edge)
	var frameFields []*types.Var
	if fr.top && fr.con != nil {
		frameFields = x.loopFrameFields(fr, ls.mods)
		for _, f := range frameFields {
			h.assume(x.frameFact(fr, f, h))
		}
	}
	if fr.top {
		x.vacuity(fmt.Sprintf("vacuity:loop%d.head", ls.ord), ls.node.Pos(), "loop invariants are satisfiable together with the path")
		x.obls[len(x.obls)-1].PrePC = append([]string(nil), pre.pc...)
	}
	headSnap := h.clone()
	sT, sF := ls.head(h)
	// measures at loop head (cond true)
	var m0 []string
	if sT != nil {
		x.st = sT
		for _, cl := range decs {
			for _, part := range splitTop(cl.Text) {
				n, err := parseSpec(part)
				if err != nil {
					panic(evalError{fmt.Sprintf("%s:%d: BINDING: %v", cl.File, cl.Line, err)})
				}
				sv := x.st
				x.st = headSnap
				m0 = append(m0, x.specTerm(x.specEnvAt(bodyPos), n))
				x.st = sv
			}
		}
	}
	var exits []*State
	if sF != nil {
		exits = append(exits, sF)
	}
	if sT != nil {
		f := ls.body(sT)
		backs := []*State{}
		if f.next != nil {
			backs = append(backs, f.next)
		}
		backs = append(backs, f.cont[""]...)
		delete(f.cont, "")
		if ls.label != "" {
			backs = append(backs, f.cont[ls.label]...)
			delete(f.cont, ls.label)
		}
		if ls.extraBack != "" {
			backs = append(backs, f.cont[ls.extraBack]...)
			delete(f.cont, ls.extraBack)
		}
		exits = append(exits, f.brk[""]...)
		delete(f.brk, "")
		if ls.label != "" {
			exits = append(exits, f.brk[ls.label]...)
			delete(f.brk, ls.label)
		}
		out.absorb(f)
		if b := x.mergeAll(backs); b != nil {
			if fr.top {
				// "loop N: end_of_body E": holds whenever an iteration completes (checked at the back edge, never assumed);
				// at_head(e) is e in the state at the head of this iteration
				x.st = b
				savedHead := x.loopHead
				x.loopHead = headSnap
				for k, cl := range x.loopClauses(ls.ord, "end_of_body") {
					g := x.spec(x.specEnvAt(ls.node.End()-1), x.parseClause(cl))
					x.addObl("end_of_body", fmt.Sprintf("body%d.end#%d", ls.ord, k), ls.node.Pos(), g, cl.Text, cl.Props, "")
				}
				x.loopHead = savedHead
			}
			if ls.post != nil {
				b = ls.post(b)
			}
			if b != nil && fr.top && (len(invs) > 0 || len(decs) > 0) {
				// the obligations at the back edge (invariant kept, measure decreased) mean nothing if no execution reaches it
				x.st = b
				x.vacuity(fmt.Sprintf("vacuity:loop%d.back", ls.ord), ls.node.Pos(), "some execution completes an iteration of the loop")
				x.obls[len(x.obls)-1].PrePC = append([]string(nil), pre.pc...)
			}
			if b != nil {
				x.st = b
				for k, cl := range invs {
					g := x.spec(x.specEnvAt(bodyPos), x.parseClause(cl))
					x.addObl("inv.keep", fmt.Sprintf("%s.keep#%d", lname, k), ls.node.Pos(), g, cl.Text, cl.Props, "")
				}
				for _, f := range frameFields {
					x.addObl("inv.keep", fmt.Sprintf("%s.frame:%s", lname, f.Name()), ls.node.Pos(), x.frameFact(fr, f, b), "loop keeps field "+f.Name()+" of objects outside the modifies clause unchanged", nil, "")
				}
				if len(m0) > 0 {
					var m1 []string
					for _, cl := range decs {
						for _, part := range splitTop(cl.Text) {
							n, _ := parseSpec(part)
							m1 = append(m1, x.specTerm(x.specEnvAt(bodyPos), n))
						}
					}
					goal := lexLess(m1, m0)
					if ls.pureCond != nil {
						// the measure has to decrease only if the loop goes round again
						goal = implies(ls.pureCond(b), goal)
					}
					x.addObl("decreases", fmt.Sprintf("dec%d", ls.ord), ls.node.Pos(), goal, "decreases "+decs[0].Text, decs[0].Props, "")
				}
			}
		}
	}
	out.next = x.mergeAll(exits)
	if out.next != nil && fr.top {
		// "loop N: after E": intermediate assertion at the loop exit (proved, then assumed)
		x.st = out.next
		for k, cl := range x.loopClauses(ls.ord, "after") {
			g := x.spec(x.specEnvAt(bodyPos), x.parseClause(cl))
			x.addObl("after", fmt.Sprintf("after%d#%d", ls.ord, k), ls.node.Pos(), g, cl.Text, cl.Props, "")
			x.st.assume(g)
		}
	}
	return out
}

// specTerm evaluates a (non-boolean) spec expression
func (x *Exec) specTerm(env *evalEnv, n SpecNode) string {
	g, ok := n.(*SGo)
	if !ok {
		return x.spec(env, n)
	}
	x.inSpec++
	defer func() { x.inSpec-- }()
	e2 := *env
	e2.spec = true
	e2.info = nil
	return x.expr(&e2, g.E).S
}

func splitTop(s string) []string {
	s = strings.TrimSpace(s)
	if strings.HasPrefix(s, "(") && strings.HasSuffix(s, ")") && balancedParen(s) {
		inner := s[1 : len(s)-1]
		var parts []string
		last := 0
		scanDepth0(inner, func(i int) bool {
			if inner[i] == ',' {
				parts = append(parts, inner[last:i])
				last = i + 1
			}
			return false
		})
		parts = append(parts, inner[last:])
		if len(parts) > 1 {
			return parts
		}
	}
	return []string{s}
}

func balancedParen(s string) bool {
	d := 0
	for i, ch := range s {
		if ch == '(' {
			d++
		} else if ch == ')' {
			d--
			if d == 0 && i != len(s)-1 {
				return false
			}
		}
	}
	return d == 0
}

// lexLess: m1 < m0 lexicographically with all components bounded below by 0
func lexLess(m1, m0 []string) string {
	var disj []string
	for i := range m0 {
		var c []string
		for j := 0; j < i; j++ {
			c = append(c, eq(m1[j], m0[j]))
		}
		c = append(c, "(< "+m1[i]+" "+m0[i]+")", "(>= "+m0[i]+" 0)")
		disj = append(disj, and(c...))
	}
	return or(disj...)
}

func (x *Exec) vacuity(name string, pos token.Pos, src string) {
	o := x.addObl("vacuity", name, pos, "false", src, nil, "")
	o.ExpectSat = true
}

func (x *Exec) forStmt(n *ast.ForStmt, st *State, label string) flow {
	var out flow
	cur := st
	if n.Init != nil {
		f := x.stmt(n.Init, cur)
		out.absorb(f)
		cur = f.next
	}
	fr := x.fr()
	ms := x.modsOf(fr, n)
	ls := &loopSpec{ord: fr.loopOrd[n], node: n, label: label, mods: ms}
	ls.head = func(h *State) (*State, *State) {
		if n.Cond == nil {
			return h, nil
		}
		x.st = h
		c := x.expr(x.env(), n.Cond)
		h = x.st
		t := h.clone()
		t.assume(c.S)
		f := h.clone()
		f.assume(not(c.S))
		return t, f
	}
	ls.body = func(s *State) flow { return x.block(n.Body.List, s) }
	if n.Post != nil {
		ls.post = func(s *State) *State { return x.stmt(n.Post, s).next }
	}
	if n.Cond != nil && !hasCall(n.Cond) && n.Post == nil {
		ls.pureCond = func(s *State) string {
			sv := x.st
			x.st = s.clone()
			x.inSpec++
			nObl := len(x.obls)
			c := x.expr(x.env(), n.Cond)
			x.obls = x.obls[:nObl] // the condition's own safety obligations belong to its real evaluation at the loop head
			x.inSpec--
			x.st = sv
			return c.S
		}
	}
	f := x.runLoop(ls, cur)
	out.absorb(f)
	out.next = f.next
	return out
}

// gotoLoop handles "L: stmt" where stmt contains "goto L" (restart loop)
func (x *Exec) gotoLoop(n *ast.LabeledStmt, st *State) flow {
	fr := x.fr()
	ms := x.modsOf(fr, n.Stmt)
	ls := &loopSpec{ord: fr.loopOrd[n], node: n, mods: ms, extraBack: "goto:" + n.Label.Name}
	ls.head = func(h *State) (*State, *State) { return h, nil }
	ls.body = func(s *State) flow {
		f := x.stmt(n.Stmt, s)
		// normal completion leaves the restart loop
		if f.next != nil {
			if f.brk == nil {
				f.brk = map[string][]*State{}
			}
			f.brk[""] = append(f.brk[""], f.next)
			f.next = nil
		}
		return f
	}
	return x.runLoop(ls, st)
}

func (x *Exec) rangeStmt(n *ast.RangeStmt, st *State, label string) flow {
	fr := x.fr()
	env := x.env()
	x.st = st
	rv := x.expr(env, n.X)
	st = x.st
	ord := fr.loopOrd[n]
	ms := x.modsOf(fr, n.Body)
	pfx := ""
	if !fr.top {
		pfx = fmt.Sprintf("inl%d_%s_", len(x.frames), fr.unit.Obj.Name())
	}
	idxName := fmt.Sprintf("%sidx%d", pfx, ord)
	rngName := fmt.Sprintf("%srng%d", pfx, ord)
	st.ghost[rngName] = rv
	ls := &loopSpec{ord: ord, node: n, label: label, mods: ms}
	defKV := func(s *State, k, v *Val) {
		x.st = s
		if n.Key != nil && k != nil {
			if id, ok := n.Key.(*ast.Ident); ok && id.Name != "_" {
				if n.Tok == token.DEFINE {
					x.define(id, *k)
				} else {
					x.assignTo(n.Key, *k)
				}
			}
		}
		if n.Value != nil && v != nil {
			if id, ok := n.Value.(*ast.Ident); ok && id.Name != "_" {
				if n.Tok == token.DEFINE {
					x.define(id, *v)
				} else {
					x.assignTo(n.Value, *v)
				}
			}
		}
	}
	switch u := rv.Ty.Underlying().(type) {
	case *types.Slice, *types.Array:
		var ln string
		var elemT types.Type
		var arr string
		if sl, ok := u.(*types.Slice); ok {
			ln = x.ctx.slLen(rv)
			arr = x.ctx.slArr(rv)
			elemT = sl.Elem()
		} else {
			at := u.(*types.Array)
			ln = fmt.Sprint(at.Len())
			arr = rv.S
			elemT = at.Elem()
		}
		st.ghost[idxName] = Val{"0", tInt}
		ms.ghosts[idxName] = true
		ls.autoInv = func(h *State) []string {
			i := h.ghost[idxName].S
			return []string{"(<= 0 " + i + ")", "(<= " + i + " " + ln + ")"}
		}
		ls.head = func(h *State) (*State, *State) {
			i := h.ghost[idxName].S
			t := h.clone()
			t.assume("(< " + i + " " + ln + ")")
			f := h.clone()
			f.assume("(>= " + i + " " + ln + ")")
			k := Val{i, tInt}
			v := Val{fmt.Sprintf("(select %s %s)", arr, i), elemT}
			defKV(t, &k, &v)
			x.st = t
			x.readFacts(v)
			return t, f
		}
		ls.body = func(s *State) flow { return x.block(n.Body.List, s) }
		ls.post = func(s *State) *State {
			s.ghost[idxName] = Val{"(+ " + s.ghost[idxName].S + " 1)", tInt}
			return s
		}
	case *types.Map:
		ks := x.ctx.Sort(u.Key())
		seenName := fmt.Sprintf("%sseen%d", pfx, ord)
		empty := fmt.Sprintf("((as const (Array %s Bool)) false)", ks)
		seenTy := types.NewMap(u.Key(), tBool) // only used for sort bookkeeping
		_ = seenTy
		st.ghost[seenName] = Val{empty, nil}
		st.ghost["seen"] = st.ghost[seenName]
		ms.ghosts[seenName] = true
		ms.ghosts["seen"] = true
		x.ghostSorts[seenName] = fmt.Sprintf("(Array %s Bool)", ks)
		x.ghostSorts["seen"] = x.ghostSorts[seenName]
		dom := x.ctx.mpDom(rv)
		_ = x.ctx.mpVal(rv)
		var curKey string
		ls.autoInv = func(h *State) []string {
			h.ghost["seen"] = h.ghost[seenName]
			s := h.ghost[seenName].S
			return []string{fmt.Sprintf("(forall ((k %s)) (! (=> (select %s k) (select %s k)) :pattern ((select %s k))))", ks, s, dom, s)}
		}
		ls.head = func(h *State) (*State, *State) {
			s := h.ghost[seenName].S
			t := h.clone()
			curKey = x.ctx.Fresh("key", ks)
			t.assume("(select " + dom + " " + curKey + ")")
			t.assume("(not (select " + s + " " + curKey + "))")
			f := h.clone()
			f.assume(fmt.Sprintf("(forall ((k %s)) (! (=> (select %s k) (select %s k)) :pattern ((select %s k))))", ks, dom, s, dom))
			k := Val{curKey, u.Key()}
			// the value is read from the map as it is NOW (updates of existing keys during the iteration are seen)
			x.st = t
			cur := x.expr(x.env(), n.X)
			v := Val{fmt.Sprintf("(select %s %s)", x.ctx.mpVal(cur), curKey), u.Elem()}
			defKV(t, &k, &v)
			x.st = t
			x.readFacts(k)
			x.readFacts(v)
			t.ghost["key"] = k
			return t, f
		}
		ls.body = func(s *State) flow { return x.block(n.Body.List, s) }
		ls.post = func(s *State) *State {
			ns := fmt.Sprintf("(store %s %s true)", s.ghost[seenName].S, curKey)
			s.ghost[seenName] = Val{ns, nil}
			s.ghost["seen"] = s.ghost[seenName]
			return s
		}
	case *types.Basic:
		if isString(rv.Ty) {
			st.ghost[idxName] = Val{"0", tInt}
			ms.ghosts[idxName] = true
			// cntN: completed iterations; at the exit it equals rune_count(s), the number of runes of the string
			cntName := fmt.Sprintf("%scnt%d", pfx, ord)
			st.ghost[cntName] = Val{"0", tInt}
			ms.ghosts[cntName] = true
			x.ctx.decl("fun:rune_count", "(declare-fun rune_count (Str) Int)")
			ln := "(strlen " + rv.S + ")"
			ls.autoInv = func(h *State) []string {
				i := h.ghost[idxName].S
				return []string{"(<= 0 " + i + ")", "(<= " + i + " " + ln + ")", "(<= 0 " + h.ghost[cntName].S + ")"}
			}
			ls.head = func(h *State) (*State, *State) {
				i := h.ghost[idxName].S
				t := h.clone()
				t.assume("(< " + i + " " + ln + ")")
				t.assume("(>= (runeAt " + rv.S + " " + i + ") 0)")
				f := h.clone()
				f.assume("(>= " + i + " " + ln + ")")
				f.assume(eq(h.ghost[cntName].S, "(rune_count "+rv.S+")"))
				k := Val{i, tInt}
				v := Val{"(runeAt " + rv.S + " " + i + ")", types.Typ[types.Rune]}
				defKV(t, &k, &v)
				t.assume("(and (>= (runeW " + rv.S + " " + i + ") 1) (<= (+ " + i + " (runeW " + rv.S + " " + i + ")) " + ln + "))")
				return t, f
			}
			ls.body = func(s *State) flow { return x.block(n.Body.List, s) }
			ls.post = func(s *State) *State {
				i := s.ghost[idxName].S
				s.ghost[idxName] = Val{"(+ " + i + " (runeW " + rv.S + " " + i + "))", tInt}
				s.ghost[cntName] = Val{"(+ " + s.ghost[cntName].S + " 1)", tInt}
				return s
			}
			break
		}
		x.fail(n.Pos(), "UNSUPPORTED range over %s", rv.Ty)
	default:
		x.fail(n.Pos(), "UNSUPPORTED range over %s", rv.Ty)
	}
	return x.runLoop(ls, st)
}

// ---------- modification sets ----------

type modSet struct {
	vars   map[types.Object]bool
	fields map[*types.Var]bool
	ghosts map[string]bool
	all    bool
	allocs bool
}

func newModSet() *modSet {
	return &modSet{vars: map[types.Object]bool{}, fields: map[*types.Var]bool{}, ghosts: map[string]bool{}}
}

func (x *Exec) modsOf(fr *frame, n ast.Node) *modSet {
	ms := newModSet()
	x.collectMods(fr.unit, n, ms, map[*types.Func]bool{})
	return ms
}

func (x *Exec) collectMods(unit *FuncUnit, n ast.Node, ms *modSet, seen map[*types.Func]bool) {
	info := unit.Pkg.TypesInfo
	var lhs func(e ast.Expr)
	lhs = func(e ast.Expr) {
		switch l := ast.Unparen(e).(type) {
		case *ast.Ident:
			if o := info.ObjectOf(l); o != nil {
				ms.vars[o] = true
			}
		case *ast.SelectorExpr:
			if sel, ok := info.Selections[l]; ok {
				// the heap field written is the last field on the path that is selected through a pointer
				t := sel.Recv()
				throughPtr := false
				for _, i := range sel.Index() {
					if el, ok := ptrElem(t); ok {
						st, _ := structOf(el)
						throughPtr = true
						t = st.Field(i).Type()
						continue
					}
					st, ok := structOf(t)
					if !ok {
						break
					}
					t = st.Field(i).Type()
				}
				if !throughPtr {
					lhs(l.X)
				} else {
					x.deepFields(info, l, ms)
				}
			} else if o := info.Uses[l.Sel]; o != nil {
				ms.vars[o] = true // pkg.Var
			}
		case *ast.IndexExpr:
			lhs(l.X)
		case *ast.StarExpr:
			if t := info.TypeOf(l.X); t != nil {
				if el, ok := ptrElem(t); ok {
					if st, ok := structOf(el); ok {
						for i := 0; i < st.NumFields(); i++ {
							ms.fields[st.Field(i)] = true
						}
						return
					}
				}
			}
			ms.all = true
		}
	}
	ast.Inspect(n, func(nd ast.Node) bool {
		switch s := nd.(type) {
		case *ast.AssignStmt:
			for _, l := range s.Lhs {
				lhs(l)
			}
		case *ast.IncDecStmt:
			lhs(s.X)
		case *ast.RangeStmt:
			if s.Key != nil {
				lhs(s.Key)
			}
			if s.Value != nil {
				lhs(s.Value)
			}
		case *ast.UnaryExpr:
			if s.Op == token.AND {
				ms.allocs = true
				// a new object's fields are written: those field heaps change
				if t := info.TypeOf(s.X); t != nil {
					if st, ok := structOf(t); ok {
						for i := 0; i < st.NumFields(); i++ {
							ms.fields[st.Field(i)] = true
						}
					}
				}
			}
			if s.Op == token.ARROW {
				ms.ghosts["fetched"] = true
			}
		case *ast.CallExpr:
			x.callMods(unit, s, ms, seen)
		case *ast.FuncLit:
			return false
		}
		return true
	})
}

func (x *Exec) deepFields(info *types.Info, l *ast.SelectorExpr, ms *modSet) {
	sel := info.Selections[l]
	t := sel.Recv()
	idx := sel.Index()
	for k, i := range idx {
		if el, ok := ptrElem(t); ok {
			st, _ := structOf(el)
			f := st.Field(i)
			if k == len(idx)-1 {
				ms.fields[f] = true
			}
			t = f.Type()
			continue
		}
		st, ok := structOf(t)
		if !ok {
			return
		}
		f := st.Field(i)
		t = f.Type()
	}
	// last pointer hop's field is the modified one; conservative: mark last field reached through a pointer
	t = sel.Recv()
	var lastHeap *types.Var
	for _, i := range idx {
		if el, ok := ptrElem(t); ok {
			st, _ := structOf(el)
			lastHeap = st.Field(i)
			t = lastHeap.Type()
			continue
		}
		st, ok := structOf(t)
		if !ok {
			break
		}
		t = st.Field(i).Type()
	}
	if lastHeap != nil {
		ms.fields[lastHeap] = true
	}
}

func (x *Exec) calleeOf(info *types.Info, call *ast.CallExpr) *types.Func {
	switch f := ast.Unparen(call.Fun).(type) {
	case *ast.Ident:
		if fn, ok := info.Uses[f].(*types.Func); ok {
			return fn
		}
	case *ast.SelectorExpr:
		if sel, ok := info.Selections[f]; ok {
			if fn, ok := sel.Obj().(*types.Func); ok {
				return fn
			}
		} else if fn, ok := info.Uses[f.Sel].(*types.Func); ok {
			return fn
		}
	}
	return nil
}

func (x *Exec) callMods(unit *FuncUnit, call *ast.CallExpr, ms *modSet, seen map[*types.Func]bool) {
	info := unit.Pkg.TypesInfo
	if tv, ok := info.Types[call.Fun]; ok && (tv.IsType() || tv.IsBuiltin()) {
		if id, ok := call.Fun.(*ast.Ident); ok && id.Name == "new" {
			ms.allocs = true
			if t := info.TypeOf(call.Args[0]); t != nil {
				if st, ok := structOf(t); ok {
					for i := 0; i < st.NumFields(); i++ {
						ms.fields[st.Field(i)] = true
					}
				}
			}
		}
		return
	}
	fn := x.calleeOf(info, call)
	if fn == nil {
		// call through a function value: union over the contracted functions of that type in this package
		if ft := info.TypeOf(call.Fun); ft != nil {
			if sig, ok := ft.Underlying().(*types.Signature); ok {
				n := 0
				for _, cu := range x.v.funcs {
					if cu.Pkg.Types != unit.Pkg.Types || cu.Obj.Type().(*types.Signature).Recv() != nil {
						continue
					}
					if types.Identical(cu.Obj.Type().Underlying(), sig) || types.AssignableTo(cu.Obj.Type(), ft) {
						if con := x.v.contractOf(cu); con != nil {
							x.contractMods(cu, con, ms)
							n++
						}
					}
				}
				if n > 0 {
					return
				}
			}
		}
		if os.Getenv("GOVC_DEBUG_MODS") != "" {
			fmt.Fprintf(os.Stderr, "mods: all because of function-value call at %s\n", posStr(x.v.fset, call.Pos()))
		}
		ms.all = true
		return
	}
	if fn.Pkg() == nil || !x.v.isRepoPkg(fn.Pkg().Path()) {
		return // external library: assumed not to touch repository state
	}
	cu := x.v.byObj[fn]
	if cu == nil {
		if os.Getenv("GOVC_DEBUG_MODS") != "" {
			fmt.Fprintf(os.Stderr, "mods: all because of unknown callee %s at %s\n", fn.FullName(), posStr(x.v.fset, call.Pos()))
		}
		ms.all = true
		return
	}
	if con := x.v.contractOf(cu); con != nil && !con.Inline {
		x.contractMods(cu, con, ms)
		return
	}
	if seen[fn] || cu.Decl.Body == nil {
		if cu.Decl.Body == nil {
			return
		}
		ms.all = true
		return
	}
	seen[fn] = true
	sub := newModSet()
	x.collectMods(cu, cu.Decl.Body, sub, seen)
	delete(seen, fn)
	for f := range sub.fields {
		ms.fields[f] = true
	}
	for o := range sub.vars {
		if vv, ok := o.(*types.Var); ok && vv.Pkg() != nil && vv.Parent() == vv.Pkg().Scope() {
			ms.vars[o] = true
		}
	}
	ms.all = ms.all || sub.all
	ms.allocs = ms.allocs || sub.allocs
}

type modItem struct {
	ghost  string
	deref  ast.Expr // *p : everything p points to
	whole  bool
	field  *types.Var
	global *types.Var
	objExp ast.Expr // object expression for x.f
	all    bool
	elems  bool
}

func (x *Exec) parseModifies(cu *FuncUnit, con *Contract) []modItem {
	var items []modItem
	found := false
	for _, cl := range con.Clauses {
		if cl.Kind != "modifies" {
			continue
		}
		found = true
		for _, part := range splitCommaTop(cl.Text) {
			part = strings.TrimSpace(part)
			if part == "nothing" || part == "" {
				continue
			}
			if part == "*" {
				items = append(items, modItem{all: true})
				continue
			}
			e, err := parseExprString(part)
			if err != nil {
				panic(evalError{fmt.Sprintf("%s:%d: BINDING: bad modifies item %q", cl.File, cl.Line, part)})
			}
			switch t := e.(type) {
			case *ast.Ident:
				isGhost := false
				for _, g := range x.v.cs.Ghosts {
					if g.Pkg == cu.Pkg.PkgPath && g.Name == t.Name {
						isGhost = true
					}
				}
				if isGhost {
					items = append(items, modItem{ghost: t.Name})
					continue
				}
				_, o := cu.Pkg.Types.Scope().LookupParent(t.Name, token.NoPos)
				gv, ok := o.(*types.Var)
				if !ok {
					panic(evalError{fmt.Sprintf("%s:%d: BINDING: modifies %s: not a package variable", cl.File, cl.Line, part)})
				}
				items = append(items, modItem{global: gv})
			case *ast.SelectorExpr:
				// Type.field or expr.field
				if id, ok := t.X.(*ast.Ident); ok {
					_, o := cu.Pkg.Types.Scope().LookupParent(id.Name, token.NoPos)
					if tn, ok := o.(*types.TypeName); ok {
						obj, _, _ := types.LookupFieldOrMethod(tn.Type(), true, cu.Pkg.Types, t.Sel.Name)
						fv, ok := obj.(*types.Var)
						if !ok {
							panic(evalError{fmt.Sprintf("%s:%d: BINDING: modifies %s: no such field", cl.File, cl.Line, part)})
						}
						items = append(items, modItem{whole: true, field: fv})
						continue
					}
					if pn, ok := o.(*types.PkgName); ok {
						// pkg.Type.field not supported; pkg.Var
						if gv, ok := pn.Imported().Scope().Lookup(t.Sel.Name).(*types.Var); ok {
							items = append(items, modItem{global: gv})
							continue
						}
					}
				}
				// pkgalias.Type.field
				if inner, ok := t.X.(*ast.SelectorExpr); ok {
					if id, ok := inner.X.(*ast.Ident); ok {
						if tt := x.lookupTypeName(cu, id.Name+"."+inner.Sel.Name); tt != nil {
							var tpkg *types.Package
							if nt := namedOf(tt); nt != nil {
								tpkg = nt.Obj().Pkg()
							}
							obj, _, _ := types.LookupFieldOrMethod(tt, true, tpkg, t.Sel.Name)
							if fv, ok := obj.(*types.Var); ok {
								items = append(items, modItem{whole: true, field: fv})
								continue
							}
						}
					}
				}
				items = append(items, modItem{objExp: t})
			case *ast.StarExpr:
				items = append(items, modItem{deref: t.X})
			default:
				panic(evalError{fmt.Sprintf("%s:%d: BINDING: unsupported modifies item %q", cl.File, cl.Line, part)})
			}
		}
	}
	if !found {
		return []modItem{{all: true}}
	}
	return items
}

func splitCommaTop(s string) []string {
	var parts []string
	last := 0
	scanDepth0(s, func(i int) bool {
		if s[i] == ',' {
			parts = append(parts, s[last:i])
			last = i + 1
		}
		return false
	})
	parts = append(parts, s[last:])
	return parts
}

func (x *Exec) contractMods(cu *FuncUnit, con *Contract, ms *modSet) {
	for _, it := range x.parseModifies(cu, con) {
		switch {
		case it.all:
			ms.all = true
		case it.global != nil:
			ms.vars[it.global] = true
		case it.field != nil:
			ms.fields[it.field] = true
		case it.ghost != "":
			ms.ghosts[it.ghost] = true
		case it.deref != nil:
			for _, f := range x.derefFields(cu, it.deref) {
				ms.fields[f] = true
			}
		case it.objExp != nil:
			// x.f : mark the field
			sel := it.objExp.(*ast.SelectorExpr)
			if f := x.fieldByName(cu, sel); f != nil {
				ms.fields[f] = true
			} else {
				ms.all = true
			}
		}
	}
	for _, cl := range con.Clauses {
		if cl.Kind == "allocates" {
			ms.allocs = true
			for _, tn := range splitList(cl.Text) {
				if t := x.lookupTypeName(cu, tn); t != nil {
					if st, ok := structOf(t); ok {
						for i := 0; i < st.NumFields(); i++ {
							ms.fields[st.Field(i)] = true
						}
					}
				}
			}
		}
	}
}

func (x *Exec) lookupTypeName(cu *FuncUnit, tn string) types.Type {
	var o types.Object
	if i := strings.Index(tn, "."); i > 0 {
		ps := cu.Pkg.Types.Scope()
		for c := 0; c < ps.NumChildren(); c++ {
			if pn, ok := ps.Child(c).Lookup(tn[:i]).(*types.PkgName); ok {
				o = pn.Imported().Scope().Lookup(tn[i+1:])
			}
		}
	} else {
		_, o = cu.Pkg.Types.Scope().LookupParent(tn, token.NoPos)
	}
	if tnm, ok := o.(*types.TypeName); ok {
		return tnm.Type()
	}
	return nil
}

// fieldByName resolves the field object named by "<expr>.f" using the callee's parameter types
func (x *Exec) fieldByName(cu *FuncUnit, sel *ast.SelectorExpr) *types.Var {
	t := x.staticTypeOf(cu, sel.X)
	if t == nil {
		return nil
	}
	obj, _, _ := types.LookupFieldOrMethod(t, true, cu.Pkg.Types, sel.Sel.Name)
	if obj == nil {
		if nt := namedOf(t); nt != nil {
			obj, _, _ = types.LookupFieldOrMethod(t, true, nt.Obj().Pkg(), sel.Sel.Name)
		}
	}
	fv, _ := obj.(*types.Var)
	return fv
}

func (x *Exec) staticTypeOf(cu *FuncUnit, e ast.Expr) types.Type {
	switch n := e.(type) {
	case *ast.Ident:
		sig := cu.Obj.Type().(*types.Signature)
		if r := sig.Recv(); r != nil && r.Name() == n.Name {
			return r.Type()
		}
		for i := 0; i < sig.Params().Len(); i++ {
			if sig.Params().At(i).Name() == n.Name {
				return sig.Params().At(i).Type()
			}
		}
		if con := x.v.contractOf(cu); con != nil {
			for i, a := range con.Params {
				if a == n.Name && i < sig.Params().Len() {
					return sig.Params().At(i).Type()
				}
			}
		}
		for i := 0; i < sig.Results().Len(); i++ {
			if sig.Results().At(i).Name() == n.Name {
				return sig.Results().At(i).Type()
			}
		}
		if _, o := cu.Pkg.Types.Scope().LookupParent(n.Name, token.NoPos); o != nil {
			return o.Type()
		}
	case *ast.SelectorExpr:
		t := x.staticTypeOf(cu, n.X)
		if t == nil {
			return nil
		}
		obj, _, _ := types.LookupFieldOrMethod(t, true, cu.Pkg.Types, n.Sel.Name)
		if obj == nil {
			if nt := namedOf(t); nt != nil {
				obj, _, _ = types.LookupFieldOrMethod(t, true, nt.Obj().Pkg(), n.Sel.Name)
			}
		}
		if obj != nil {
			return obj.Type()
		}
	case *ast.IndexExpr:
		t := x.staticTypeOf(cu, n.X)
		if t == nil {
			return nil
		}
		switch u := t.Underlying().(type) {
		case *types.Slice:
			return u.Elem()
		case *types.Map:
			return u.Elem()
		case *types.Array:
			return u.Elem()
		}
	case *ast.ParenExpr:
		return x.staticTypeOf(cu, n.X)
	}
	return nil
}

func (x *Exec) havocMods(ms *modSet, st *State) {
	if ms.all {
		x.havocAll(st)
	}
	var objs []types.Object
	for o := range ms.vars {
		objs = append(objs, o)
	}
	sort.Slice(objs, func(i, j int) bool {
		if objs[i].Pos() != objs[j].Pos() {
			return objs[i].Pos() < objs[j].Pos()
		}
		return objs[i].Name() < objs[j].Name()
	})
	for _, o := range objs {
		vv, ok := o.(*types.Var)
		if !ok {
			continue
		}
		isGlobal := vv.Pkg() != nil && vv.Parent() == vv.Pkg().Scope()
		if _, live := st.vars[o]; !live && !isGlobal {
			continue // declared inside the loop
		}
		x.havocVar(st, vv)
	}
	var flds []*types.Var
	for f := range ms.fields {
		flds = append(flds, f)
	}
	sort.Slice(flds, func(i, j int) bool { return x.heapName(flds[i]) < x.heapName(flds[j]) })
	for _, f := range flds {
		st.heap[f] = x.ctx.Fresh(x.heapName(f), fmt.Sprintf("(Array Int %s)", x.ctx.Sort(f.Type())))
	}
	for _, g := range sortedKeys(ms.ghosts) {
		if old, ok := st.ghost[g]; ok {
			srt := x.ghostSorts[g]
			if srt == "" && old.Ty != nil {
				srt = x.ctx.Sort(old.Ty)
			}
			if srt == "" {
				srt = "Int"
			}
			st.ghost[g] = Val{x.ctx.Fresh(g, srt), old.Ty}
		}
	}
	if ms.allocs {
		na := x.ctx.Fresh("alloc", "Int")
		st.assume("(>= " + na + " " + st.alloc + ")")
		st.alloc = na
	}
}

func (x *Exec) havocVar(st *State, vv *types.Var) {
	if x.boxed[vv] {
		// address-taken local: its storage is a heap object; havoc the contents, keep the reference
		ref := st.vars[vv].S
		sv := x.st
		x.st = st
		x.storeCell(ref, Val{x.ctx.Fresh(vv.Name(), x.ctx.Sort(vv.Type())), vv.Type()}, vv.Type())
		x.st = sv
		return
	}
	c := x.ctx.Fresh(vv.Name(), x.ctx.Sort(vv.Type()))
	v := Val{c, vv.Type()}
	st.vars[vv] = v
	sv := x.st
	x.st = st
	x.readFacts(v)
	x.st = sv
}

func (x *Exec) havocAll(st *State) {
	x.note("havoc of the whole heap and all package variables (unmodelled effect)")
	for _, f := range x.v.allFields {
		st.heap[f] = x.ctx.Fresh(x.heapName(f), fmt.Sprintf("(Array Int %s)", x.ctx.Sort(f.Type())))
	}
	for _, g := range x.v.allGlobals {
		x.havocVar(st, g)
	}
	var objs []types.Object
	for o := range st.vars {
		objs = append(objs, o)
	}
	_ = objs
	na := x.ctx.Fresh("alloc", "Int")
	st.assume("(>= " + na + " " + st.alloc + ")")
	st.alloc = na
}

// derefFields: heap fields written by "modifies *p"
func (x *Exec) derefFields(cu *FuncUnit, pe ast.Expr) []*types.Var {
	t := x.staticTypeOf(cu, pe)
	if t == nil {
		panic(evalError{"BINDING: modifies *" + exprStr(pe) + ": unknown pointer"})
	}
	el, ok := ptrElem(t)
	if !ok {
		panic(evalError{"BINDING: modifies *" + exprStr(pe) + ": not a pointer"})
	}
	if st, ok := structOf(el); ok {
		var fs []*types.Var
		for i := 0; i < st.NumFields(); i++ {
			fs = append(fs, st.Field(i))
		}
		return fs
	}
	return []*types.Var{x.cellField(el)}
}

// loopFrameFields: fields in the loop's modification set that the function's modifies clause restricts to listed objects
func (x *Exec) loopFrameFields(fr *frame, ms *modSet) []*types.Var {
	hasMod := false
	for _, cl := range fr.con.Clauses {
		if cl.Kind == "modifies" {
			hasMod = true
		}
	}
	if !hasMod || ms.all {
		return nil
	}
	items := x.parseModifies(fr.unit, fr.con)
	var out []*types.Var
	for f := range ms.fields {
		whole := false
		for _, it := range items {
			if it.all || (it.whole && it.field == f) {
				whole = true
			}
		}
		if !whole {
			out = append(out, f)
		}
	}
	sort.Slice(out, func(i, j int) bool { return x.heapName(out[i]) < x.heapName(out[j]) })
	return out
}

// frameFact: every object that existed at entry and is not named for field f in the modifies clause has its entry value
func (x *Exec) frameFact(fr *frame, f *types.Var, st *State) string {
	items := x.parseModifies(fr.unit, fr.con)
	sig := fr.unit.Obj.Type().(*types.Signature)
	ee := &evalEnv{pkg: fr.unit.Pkg.Types, old: x.entry, spec: true, bound: map[string]Val{}}
	if r := sig.Recv(); r != nil && r.Name() != "" {
		ee.bound[r.Name()] = x.entry.vars[r]
	}
	for i := 0; i < sig.Params().Len(); i++ {
		p := sig.Params().At(i)
		if p.Name() != "" && p.Name() != "_" {
			ee.bound[p.Name()] = x.entry.vars[p]
		}
	}
	var objs []string
	for _, it := range items {
		if it.objExp != nil {
			sel := it.objExp.(*ast.SelectorExpr)
			if x.fieldByName(fr.unit, sel) == f {
				sv := x.st
				x.st = x.entry
				x.inSpec++
				o := x.expr(ee, sel.X)
				x.inSpec--
				x.st = sv
				objs = append(objs, o.S)
			}
		}
		if it.deref != nil {
			for _, df := range x.derefFields(fr.unit, it.deref) {
				if df == f {
					sv := x.st
					x.st = x.entry
					x.inSpec++
					o := x.expr(ee, it.deref)
					x.inSpec--
					x.st = sv
					objs = append(objs, o.S)
				}
			}
		}
	}
	x.qcount++
	r := fmt.Sprintf("r!q%d", x.qcount)
	conds := []string{"(< 0 " + r + ")", "(< " + r + " " + x.entry.alloc + ")"}
	for _, o := range objs {
		conds = append(conds, "(not (= "+r+" "+o+"))")
	}
	h1, h0 := x.heapOf(st, f), x.heapOf(x.entry, f)
	return fmt.Sprintf("(forall ((%s Int)) (! (=> %s (= (select %s %s) (select %s %s))) :pattern ((select %s %s))))", r, and(conds...), h1, r, h0, r, h1, r)
}
