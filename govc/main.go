package main

import (
	"runtime/pprof"
	"encoding/json"
	"flag"
	"fmt"
	"go/token"
	"go/types"
	"os"
	"path/filepath"
	"sort"
	"strings"
	"time"

	"golang.org/x/tools/go/packages"
)

func hasProp(list []string, p string) bool {
	for _, q := range list {
		if q == p {
			return true
		}
	}
	return false
}

func main() {
	repo := flag.String("repo", "/repo", "repository root")
	prop := flag.String("prop", "", "property id (empty: all)")
	tier := flag.String("tier", "quick", "quick|thorough")
	only := flag.String("func", "", "only this function (unit name substring)")
	work := flag.String("work", "", "scratch directory for SMT files")
	evid := flag.String("evidence", "", "write evidence JSON here")
	verbose := flag.Bool("v", false, "verbose")
	dump := flag.String("dump", "", "dump the query of the obligation with this name")
	extra := flag.String("extra", "", "comma-separated extra module dirs to load")
	standins := flag.String("standin", "", "comma-separated bounded stand-ins: <harness file>:<package dir relative to the repository>")
	orderRoots := flag.String("order-roots", "", "comma-separated root functions for the C14 map-iteration-order scan")
	rendered := flag.String("rendered", "", "directory with rendered parsers (output of the injected render test)")
	replayDir := flag.String("replays", "/verif/replays", "where replay files go")
	harnessDir := flag.String("harness", "/verif/harness", "run-time contract harnesses (bounded search for failing inputs)")
	knownPath := flag.String("known", "/verif/known_findings.txt", "known findings file")
	baseDir := flag.String("baseline", "/verif/baseline", "directory with the accepted baseline (<prop>.json: obligations proved on the accepted tree)")
	writeBaseFlag := flag.Bool("write-baseline", false, "rewrite the baseline of this property from this run")
	seed := flag.Int("seed", 0, "seed")
	cpuprof := flag.String("cpuprofile", "", "write a CPU profile here")
	termRoots := flag.String("term-roots", "", "C13: termination accounting for everything reachable from these functions")
	with := flag.String("with", "", "comma-separated properties whose contracts this property depends on: their obligations are generated and reported under -prop")
	flag.Parse()
	if *cpuprof != "" {
		pf, _ := os.Create(*cpuprof)
		pprof.StartCPUProfile(pf)
		go func() { time.Sleep(60 * time.Second); pprof.StopCPUProfile(); pf.Close(); os.Exit(9) }()
	}
	t0 := time.Now()

	v := &Verifier{costMemo: map[*types.Func]int{}, fset: token.NewFileSet(), pkgs: map[string]*packages.Package{}, repoPkgs: map[string]bool{}, funcs: map[string]*FuncUnit{}, byObj: map[*types.Func]*FuncUnit{},
		cs: &ContractSet{Funcs: map[string]*Contract{}}, fieldOwner: map[*types.Var]string{}, cells: map[string]*types.Var{}, renderTag: map[string]string{}}
	cfg := &packages.Config{Mode: packages.NeedName | packages.NeedFiles | packages.NeedSyntax | packages.NeedTypes | packages.NeedTypesInfo | packages.NeedImports | packages.NeedDeps,
		Dir: *repo, BuildFlags: []string{"-tags=verif"}, Fset: v.fset}
	pkgs, err := packages.Load(cfg, "./...")
	if err != nil {
		fatalf("load: %v", err)
	}
	if err := v.addPackages(pkgs); err != nil {
		fmt.Printf("UNDECIDED-BINDING: %v\n", err)
		os.Exit(3)
	}
	for _, d := range strings.Split(*extra, ",") {
		if d == "" {
			continue
		}
		c2 := *cfg
		c2.Dir = d
		ps, err := packages.Load(&c2, "./...")
		if err != nil {
			fatalf("load %s: %v", d, err)
		}
		if err := v.addPackages(ps); err != nil {
			fmt.Printf("UNDECIDED-BINDING: %v\n", err)
			os.Exit(3)
		}
	}
	if *work == "" {
		d, _ := os.MkdirTemp("", "govc")
		*work = d
		defer os.RemoveAll(d)
	}
	os.MkdirAll(*work, 0o755)
	var renderObls []*Obligation
	if *rendered != "" {
		builderPkg := ""
		for pth := range v.pkgs {
			if strings.HasSuffix(pth, "/Builder") {
				builderPkg = pth
			}
		}
		rvs, _, err := v.loadRendered(*rendered, filepath.Join(*repo, "Builder", "driver_contracts_verif.go"), *work)
		if err != nil {
			fmt.Printf("UNDECIDED-BINDING: %v\n", err)
			os.Exit(3)
		}
		// representative per tag set: the first rendering (preferring the "ladd" grammar) that type-checks
		// (an example written for the global API does not compile in -o mode and vice versa); all others must have
		// identical static function text
		reps := map[string]*renderedVariant{}
		typeErrs := map[string][]string{}
		repPkgs := map[string][]*packages.Package{}
		tagKey := func(rv *renderedVariant) string { return strings.Join(sortedKeys(rv.Tags), "+") }
		sort.SliceStable(rvs, func(i, j int) bool {
			li, lj := strings.HasPrefix(rvs[i].Name, "ladd"), strings.HasPrefix(rvs[j].Name, "ladd")
			if li != lj {
				return li
			}
			return rvs[i].Name < rvs[j].Name
		})
		for _, rv := range rvs {
			k := tagKey(rv)
			if _, ok := reps[k]; ok {
				continue
			}
			c2 := *cfg
			c2.Dir = rv.Dir
			ps, err := packages.Load(&c2, ".")
			if err != nil || len(ps) == 0 || len(ps[0].Errors) > 0 {
				if err == nil && len(ps) > 0 {
					typeErrs[k] = append(typeErrs[k], fmt.Sprintf("%s: %v", rv.Name, ps[0].Errors[0]))
				}
				continue
			}
			reps[k] = rv
			repPkgs[k] = ps
		}
		// a back end none of whose renderings type-checks any more: the generated parser does not compile (the repository's
		// tests never compile generated code) - reported as a failed extraction obligation, not as "undecided"
		noRep := map[string]bool{}
		for _, rv := range rvs {
			k := tagKey(rv)
			if reps[k] == nil && !noRep[k] {
				noRep[k] = true
				msg := "no rendering of the back end [" + k + "] type-checks: " + strings.Join(typeErrs[k], "; ")
				renderObls = append(renderObls, &Obligation{Func: "rendered." + rv.Name, Name: "rendered[" + k + "]/typechecks", Kind: "shape", Goal: "false", Status: "failed", Src: msg, Solver: "go/types", Output: msg})
			}
		}
		for k := range reps {
			renderObls = append(renderObls, &Obligation{Func: "rendered." + reps[k].Name, Name: "rendered[" + k + "]/typechecks", Kind: "shape", Goal: "true", Status: "proved", Solver: "go/types",
				Src: "the rendering " + reps[k].Name + " of this back end (after extraction) type-checks and is the one the driver contracts are discharged on"})
		}
		for _, rv := range rvs {
			rep := reps[tagKey(rv)]
			for _, sh := range rv.Shape {
				renderObls = append(renderObls, &Obligation{Func: "rendered." + rv.Name, Name: "rendered." + rv.Name + "/shape:" + sanitize(trunc(sh, 40)), Kind: "shape", Goal: "false", Status: "failed", Src: sh, Solver: "extraction", Output: sh})
			}
			if len(rv.Shape) == 0 {
				renderObls = append(renderObls, &Obligation{Func: "rendered." + rv.Name, Name: "rendered." + rv.Name + "/shape:reduce-cases", Kind: "shape", Goal: "true", Status: "proved", Src: "every rendered reduce case has the schematic shape (lhs id; Dollar window; user action; pop of the same size)", Solver: "extraction"})
			}
			for _, sh := range rv.ShapeT {
				renderObls = append(renderObls, &Obligation{Func: "rendered." + rv.Name, Name: "rendered." + rv.Name + "/shape:" + sanitize(trunc(sh, 60)), Kind: "shape", Goal: "false", Status: "failed", Src: sh, Solver: "extraction", Output: sh})
			}
			if len(rv.ShapeT) == 0 {
				renderObls = append(renderObls, &Obligation{Func: "rendered." + rv.Name, Name: "rendered." + rv.Name + "/shape:translate-cases", Kind: "shape", Goal: "true", Status: "proved", Solver: "extraction",
					Src: fmt.Sprintf("translate and TraceTranslate are `var conv = zero; switch c { case <int>: conv = <literal> ... }; return conv` with no default clause (%d token codes): a code that is not a case label maps to symbol 0; TraceReduce (Go renderings) is `if IsTrace { switch reduceIndex { case <int>: fmt.Printf(<literal>, look, s) ... } }`", rv.NTrans)})
			}
			if rv != rep && rep != nil {
				same := true
				diff := ""
				for k, txt := range rep.Static {
					if rv.Static[k] != txt {
						same = false
						diff = k
					}
				}
				if len(rv.Static) != len(rep.Static) {
					same = false
					diff = "set of static functions"
				}
				o := &Obligation{Func: "rendered." + rv.Name, Name: "rendered." + rv.Name + "/same-static-text-as:" + rep.Name, Kind: "shape", Goal: "true", Status: "proved", Solver: "extraction",
					Src: "static driver functions of this rendering are textually identical to the verified representative " + rep.Name}
				if !same {
					o.Status, o.Goal, o.Output = "failed", "false", "function "+diff+" differs"
					o.Src += " — differs in: " + diff
				}
				renderObls = append(renderObls, o)
			}
		}
		for _, k := range sortedKeys(reps) {
			rv := reps[k]
			ps := repPkgs[k]
			if err := v.addPackages(ps); err != nil {
				fmt.Printf("UNDECIDED-BINDING: rendered %s: %v\n", rv.Name, err)
				os.Exit(3)
			}
			for _, p := range ps {
				tg := "goCode"
				if rv.Tags["goObject"] {
					tg = "goObject"
				}
				if rv.Tags["packed"] {
					tg += "+packed"
				} else {
					tg += "+unpacked"
				}
				if rv.Tags["ts"] {
					tg = "typescript"
				}
				v.renderTag[p.PkgPath] = tg
				v.cs.instantiate(builderPkg, p.PkgPath, rv.Tags)
			}
		}
	}
	loadS := time.Since(t0).Seconds()

	props := []string{*prop}
	for _, w := range strings.Split(*with, ",") {
		if w = strings.TrimSpace(w); w != "" && *prop != "" {
			props = append(props, w)
		}
	}
	timeout := 25
	if *tier == "thorough" {
		timeout = 90
	}
	var results []*FuncResult
	ctxOf := map[*Obligation]*Ctx{}
	var all []*Obligation
	keys := append([]string(nil), v.cs.Order...)
	for _, k := range keys {
		con := v.cs.Funcs[k]
		taggedOnly := *prop != "" && !hasAnyProp(con.Props, props) && hasAnyProp(con.TaggedOnly, props)
		if *prop != "" && !hasAnyProp(con.Props, props) && !taggedOnly {
			continue
		}
		if con.Trusted || con.Template != "" {
			continue
		}
		cu := v.funcs[k]
		if cu == nil {
			results = append(results, &FuncResult{Unit: k, Contract: con, Err: fmt.Sprintf("%s:%d: BINDING: no function %s in package %s", con.File, con.Line, con.Key, con.Pkg)})
			continue
		}
		if *only != "" && !strings.Contains(v.unitName(cu), *only) {
			continue
		}
		v.curProp = *prop
		v.curProps = props
		r := v.verifyFunc(cu, con)
		results = append(results, r)
		for _, o := range r.Obls {
			// property filter per clause
			if *prop != "" && len(o.Props) > 0 && !hasAnyProp(o.Props, props) {
				continue
			}
			if taggedOnly && !hasAnyProp(o.Props, props) && !strings.HasPrefix(o.Kind, "vacuity") && !strings.Contains(o.Name, "/vacuity:") {
				continue
			}
			ctxOf[o] = r.Ctx
			all = append(all, o)
		}
	}
	// lemmas
	for _, lm := range v.cs.Lemmas {
		if lm.Template != "" {
			continue
		}
		if *prop != "" && !hasAnyProp(lm.Props, props) {
			continue
		}
		if *only != "" && !strings.Contains(lm.Name, *only) {
			continue
		}
		r := v.verifyLemma(lm)
		results = append(results, r)
		for _, o := range r.Obls {
			ctxOf[o] = r.Ctx
			all = append(all, o)
		}
	}
	if *orderRoots != "" {
		r := v.orderCheck(strings.Split(*orderRoots, ","))
		results = append(results, r)
		for _, o := range r.Obls {
			if o.ctx != nil {
				ctxOf[o] = o.ctx
			} else {
				ctxOf[o] = r.Ctx
			}
			all = append(all, o)
		}
	}
	if *termRoots != "" {
		r, need := v.termCheck(strings.Split(*termRoots, ","))
		results = append(results, r)
		for _, o := range r.Obls {
			ctxOf[o] = r.Ctx
			all = append(all, o)
		}
		// the measures themselves: the `decreases` obligations of the functions that carry them (their loop invariants are
		// discharged by the check of the property those functions belong to)
		done := map[string]bool{}
		for _, fr := range results {
			done[fr.Unit] = true
		}
		for _, cu := range need {
			if done[v.unitName(cu)] {
				continue
			}
			con := v.contractOf(cu)
			if con == nil || con.Trusted {
				continue
			}
			v.curProp = *prop
			v.curProps = append(append([]string(nil), props...), con.Props...)
			fr := v.verifyFunc(cu, con)
			kept := &FuncResult{Unit: fr.Unit, Contract: fr.Contract, Ctx: fr.Ctx, Err: fr.Err, Loops: fr.Loops, Trusted: fr.Trusted, Notes: append(fr.Notes, "only the `decreases` obligations of this function are part of C13; its invariants are discharged under "+strings.Join(con.Props, ", "))}
			for _, o := range fr.Obls {
				if o.Kind == "decreases" {
					kept.Obls = append(kept.Obls, o)
					ctxOf[o] = fr.Ctx
					all = append(all, o)
				}
			}
			results = append(results, kept)
		}
	}
	if len(renderObls) > 0 {
		rr := &FuncResult{Unit: "rendered (extraction checks)", Obls: renderObls, Ctx: NewCtx()}
		results = append(results, rr)
		for _, o := range renderObls {
			ctxOf[o] = rr.Ctx
			all = append(all, o)
		}
	}
	genS := time.Since(t0).Seconds() - loadS
	if *dump != "" {
		for _, o := range all {
			if strings.Contains(o.Name, *dump) {
				fmt.Println(buildQuery(ctxOf[o], o, false))
			}
		}
		return
	}
	solveAll(func(o *Obligation) *Ctx { return ctxOf[o] }, all, solveCfg{timeout: timeout, dir: *work, jobs: 5, seed: *seed})
	solveS := time.Since(t0).Seconds() - loadS - genS

	rep := &Report{Prop: *prop, Tier: *tier, Seed: *seed, Results: results, Obls: all, LoadS: loadS, GenS: genS, SolveS: solveS, Wall: time.Since(t0).Seconds(), V: v, ReplayDir: *replayDir, HarnessDir: *harnessDir, Repo: *repo}
	for _, tg := range v.renderTag {
		if tg == "typescript" {
			rep.ExtraAssumptions = append(rep.ExtraAssumptions,
				"TypeScript driver: verified on a line-by-line transliteration into Go of the text the generator emits (rules R1-R9 in govc/tsrender.go; dropped: comments, semicolons, user prologue/epilogue/union members/action bodies, the numbers of the table literal)",
				"TypeScript semantics not captured by the transliteration: number is an IEEE double (exact below 2^53), an out-of-range array read yields undefined instead of stopping (all reads are proved in range), undefined and null are both nil, exceptions thrown by user code")
			break
		}
	}
	for _, si := range strings.Split(*standins, ",") {
		if si == "" {
			continue
		}
		parts := strings.SplitN(si, ":", 2)
		rep.runStandin(filepath.Join(*harnessDir, parts[0]), filepath.Join(*repo, parts[1]))
	}
	rep.Known = loadKnown(*knownPath)
	basePath := filepath.Join(*baseDir, *prop+".json")
	writeBase := new(string)
	if *writeBaseFlag {
		*writeBase = basePath
	}
	rep.Baseline = loadBaseline(basePath)
	code := rep.finish(*evid, *verbose)
	if *writeBase != "" {
		m := map[string]string{}
		for _, o := range all {
			if o.Status == "proved" {
				m[o.Name] = "proved"
			}
		}
		b, _ := json.MarshalIndent(m, "", " ")
		os.WriteFile(*writeBase, b, 0o644)
	}
	os.Exit(code)
}

func sortedObls(obls []*Obligation) []*Obligation {
	o2 := append([]*Obligation(nil), obls...)
	sort.SliceStable(o2, func(i, j int) bool { return o2[i].Name < o2[j].Name })
	return o2
}

func hasAnyProp(have []string, want []string) bool {
	for _, w := range want {
		if hasProp(have, w) {
			return true
		}
	}
	return false
}
