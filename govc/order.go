package main

import (
	"fmt"
	"go/ast"
	"go/token"
	"go/types"
	"sort"
	"strings"
)

// C14: iteration order of maps.
//
// Every `for ... range <map>` in a function reachable from the generator entry points must be justified:
//   loop N: order_independent            swap commutation: body(k1);body(k2) and body(k2);body(k1) give the same state,
//                                        for every state satisfying the loop's declared invariants and all k1 != k2 in the map
//   loop N: order_independent by_post    the loop's invariants at exit determine the modified state uniquely
//   loop N: order_assumed <reason>       listed as an assumption
//   order_exempt <reason>                whole function exempt (e.g. prints to stdout in debug mode only)
// A reachable map range without any of these is a failed obligation.

type mapLoop struct {
	unit *FuncUnit
	node *ast.RangeStmt
	ord  int
}

func (v *Verifier) mapRangeLoops(cu *FuncUnit) []mapLoop {
	var out []mapLoop
	if cu.Decl.Body == nil {
		return nil
	}
	x := v.newExec("scan")
	x.boxed = map[types.Object]bool{}
	fr := x.newFrame(cu, nil, false)
	ast.Inspect(cu.Decl.Body, func(n ast.Node) bool {
		if _, ok := n.(*ast.FuncLit); ok {
			return false
		}
		if rs, ok := n.(*ast.RangeStmt); ok {
			if t := cu.Pkg.TypesInfo.TypeOf(rs.X); t != nil {
				if _, isMap := t.Underlying().(*types.Map); isMap {
					out = append(out, mapLoop{cu, rs, fr.loopOrd[rs]})
				}
			}
		}
		return true
	})
	return out
}

// reachable functions from the given roots (static calls, method calls, functions used as values)
func (v *Verifier) reachable(roots []*FuncUnit) []*FuncUnit {
	seen := map[*FuncUnit]bool{}
	var order []*FuncUnit
	var visit func(cu *FuncUnit)
	visit = func(cu *FuncUnit) {
		if cu == nil || seen[cu] || cu.Decl.Body == nil {
			return
		}
		seen[cu] = true
		order = append(order, cu)
		info := cu.Pkg.TypesInfo
		ast.Inspect(cu.Decl.Body, func(n ast.Node) bool {
			switch e := n.(type) {
			case *ast.Ident:
				if fn, ok := info.Uses[e].(*types.Func); ok {
					visit(v.byObj[fn])
				}
			case *ast.SelectorExpr:
				if sel, ok := info.Selections[e]; ok {
					if fn, ok := sel.Obj().(*types.Func); ok {
						if cu2 := v.byObj[fn]; cu2 != nil {
							visit(cu2)
						} else if _, isIface := sel.Recv().Underlying().(*types.Interface); isIface {
							// interface method: every repository method of that name
							for _, c := range v.funcs {
								if c.Obj.Name() == fn.Name() && c.Obj.Type().(*types.Signature).Recv() != nil {
									visit(c)
								}
							}
						}
					}
				} else if fn, ok := info.Uses[e.Sel].(*types.Func); ok {
					visit(v.byObj[fn])
				}
			}
			return true
		})
	}
	for _, r := range roots {
		visit(r)
	}
	return order
}

func (v *Verifier) orderClause(con *Contract, ord int) (*Clause, string) {
	if con == nil {
		return nil, ""
	}
	for _, cl := range con.Clauses {
		if cl.Kind == "order_exempt" {
			return cl, "exempt"
		}
	}
	for _, cl := range con.Clauses {
		if cl.Loop != ord {
			continue
		}
		switch cl.Kind {
		case "loop:order_independent":
			if strings.Contains(cl.Text, "by_post") {
				return cl, "post"
			}
			return cl, "swap"
		case "loop:order_assumed":
			return cl, "assumed"
		}
	}
	return nil, ""
}

// orderCheck produces the C14 obligations for the whole repository
func (v *Verifier) orderCheck(rootKeys []string) *FuncResult {
	res := &FuncResult{Unit: "C14 map-iteration-order scan", Ctx: NewCtx()}
	var roots []*FuncUnit
	for _, k := range rootKeys {
		found := false
		for key, cu := range v.funcs {
			if strings.HasSuffix(key, "::"+k) && !strings.HasPrefix(cu.Pkg.PkgPath, "rendered/") {
				roots = append(roots, cu)
				found = true
			}
		}
		if !found {
			res.Err = "BINDING: C14 root function " + k + " not found"
			return res
		}
	}
	reach := v.reachable(roots)
	sort.Slice(reach, func(i, j int) bool { return v.unitName(reach[i]) < v.unitName(reach[j]) })
	nfun := 0
	for _, cu := range reach {
		if !v.isRepoPkg(cu.Pkg.PkgPath) {
			continue
		}
		nfun++
		// other sources of nondeterminism
		ast.Inspect(cu.Decl.Body, func(n ast.Node) bool {
			switch s := n.(type) {
			case *ast.SelectStmt:
				res.Obls = append(res.Obls, v.synthObl(cu, "order:select", s.Pos(), false, "select statement in generation code"))
			case *ast.GoStmt:
				if cu.Obj.Name() != "Lex" {
					res.Obls = append(res.Obls, v.synthObl(cu, "order:go", s.Pos(), false, "goroutine started outside the lexer"))
				}
			case *ast.SelectorExpr:
				if id, ok := s.X.(*ast.Ident); ok {
					if pn, ok := cu.Pkg.TypesInfo.Uses[id].(*types.PkgName); ok {
						switch pn.Imported().Path() {
						case "time", "math/rand", "crypto/rand", "unsafe":
							res.Obls = append(res.Obls, v.synthObl(cu, "order:"+pn.Imported().Path(), s.Pos(), false, "use of package "+pn.Imported().Path()+" in generation code"))
						}
					}
				}
			case *ast.BasicLit:
				if s.Kind == token.STRING && strings.Contains(s.Value, "%p") {
					res.Obls = append(res.Obls, v.synthObl(cu, "order:%p", s.Pos(), false, "pointer formatting in generation code"))
				}
			}
			return true
		})
		// state that survives a generation: a package-level variable written by generation code makes the next
		// generation in the same process depend on the previous one
		for _, gw := range v.globalWrites(cu) {
			res.Obls = append(res.Obls, v.synthObl(cu, "order:global:"+gw.name, gw.pos, false,
				"package-level variable "+gw.name+" is written in code reachable from the generator: state carried from one generation to the next"))
		}
		con := v.contractOf(cu)
		for _, ml := range v.mapRangeLoops(cu) {
			cl, how := v.orderClause(con, ml.ord)
			name := fmt.Sprintf("order%d", ml.ord)
			switch how {
			case "":
				res.Obls = append(res.Obls, v.synthObl(cu, name, ml.node.Pos(), false,
					"range over a map in code reachable from the generator: no order_independent justification in the contract — the result may depend on Go's randomised map iteration order"))
			case "exempt":
				o := v.synthObl(cu, name, ml.node.Pos(), true, "order_exempt: "+cl.Text)
				res.Obls = append(res.Obls, o)
				res.Trusted = append(res.Trusted, v.unitName(cu)+": map iteration exempt from C14: "+cl.Text)
			case "assumed":
				res.Obls = append(res.Obls, v.synthObl(cu, name, ml.node.Pos(), true, "order_assumed: "+cl.Text))
				res.Trusted = append(res.Trusted, v.unitName(cu)+fmt.Sprintf(" loop %d: order independence assumed: %s", ml.ord, cl.Text))
			case "swap", "post":
				r := v.orderObls(cu, con, ml, how)
				if r.Err != "" {
					res.Err = r.Err
				}
				for _, o := range r.Obls {
					o.ctx = r.Ctx
				}
				res.Obls = append(res.Obls, r.Obls...)
				res.Notes = append(res.Notes, r.Notes...)
			}
		}
	}
	res.Notes = append(res.Notes, fmt.Sprintf("%d functions reachable from %v scanned for map ranges, select, goroutines, time/rand/unsafe, %%p, writes to package-level variables", nfun, rootKeys))
	return res
}

func (v *Verifier) synthObl(cu *FuncUnit, name string, pos token.Pos, ok bool, src string) *Obligation {
	un := v.unitName(cu)
	o := &Obligation{Func: un, Name: un + "/" + name, Kind: "effect", Goal: "true", Src: src, Pos: posStr(v.fset, pos), Solver: "order-scan(syntactic)", Status: "proved"}
	if !ok {
		o.Status, o.Goal, o.Output = "failed", "false", src
	}
	return o
}

// orderObls: swap-commutation / post-uniqueness obligations for one map range loop, from an arbitrary state
func (v *Verifier) orderObls(cu *FuncUnit, con *Contract, ml mapLoop, how string) (res *FuncResult) {
	name := v.unitName(cu)
	x := v.newExec(name)
	x.lemmasUsed = map[string]bool{}
	res = &FuncResult{Unit: name, Contract: con, Ctx: x.ctx}
	defer func() {
		if r := recover(); r != nil {
			if ee, ok := r.(evalError); ok {
				res.Err = ee.msg
				res.Obls = x.obls
				return
			}
			panic(r)
		}
	}()
	fr := x.newFrame(cu, con, true)
	x.frames = []*frame{fr}
	mk := func() *State {
		st := &State{vars: map[types.Object]Val{}, heap: map[*types.Var]string{}, ghost: map[string]Val{}}
		st.alloc = x.ctx.Const("alloc$0", "Int")
		return st
	}
	base := mk()
	base.assume("(>= " + base.alloc + " 1)")
	x.st = base
	// every variable in scope at the loop gets an arbitrary value
	sc := cu.Scope.Innermost(ml.node.Pos())
	for s := sc; s != nil && s != cu.Pkg.Types.Scope(); s = s.Parent() {
		for _, nm := range s.Names() {
			if vv, ok := s.Lookup(nm).(*types.Var); ok && vv.Pos() < ml.node.Pos() {
				if _, done := base.vars[vv]; !done {
					val := Val{x.ctx.Fresh(vv.Name(), x.ctx.Sort(vv.Type())), vv.Type()}
					base.vars[vv] = val
					x.readFacts(val)
				}
			}
		}
		if s == cu.Scope {
			break
		}
	}
	x.entry = base.clone()
	env := x.env()
	rv := x.expr(env, ml.node.X)
	mt := rv.Ty.Underlying().(*types.Map)
	ks := x.ctx.Sort(mt.Key())
	dom, val := x.ctx.mpDom(rv), x.ctx.mpVal(rv)
	bodyPos := ml.node.Body.Lbrace + 1
	ms := x.modsOf(fr, ml.node.Body)
	seenName := fmt.Sprintf("seen%d", ml.ord)
	x.ghostSorts[seenName] = fmt.Sprintf("(Array %s Bool)", ks)
	x.ghostSorts["seen"] = x.ghostSorts[seenName]
	assumeInvs := func(st *State, seen string) {
		st.ghost[seenName] = Val{seen, nil}
		st.ghost["seen"] = st.ghost[seenName]
		x.st = st
		x.loopPre = base
		for _, cl := range x.loopClauses(ml.ord, "invariant") {
			st.assume(x.spec(x.specEnvAt(bodyPos), x.parseClause(cl)))
		}
	}
	bind := func(st *State, key string) {
		x.st = st
		k := Val{key, mt.Key()}
		vv := Val{fmt.Sprintf("(select %s %s)", val, key), mt.Elem()}
		def := func(e ast.Expr, v Val) {
			if id, ok := e.(*ast.Ident); ok && id.Name != "_" {
				if ml.node.Tok == token.DEFINE {
					x.define(id, v)
				} else {
					x.assignTo(e, v)
				}
			}
		}
		if ml.node.Key != nil {
			def(ml.node.Key, k)
		}
		if ml.node.Value != nil {
			def(ml.node.Value, vv)
		}
		x.readFacts(k)
		x.readFacts(vv)
	}
	run := func(st *State, key string) *State {
		bind(st, key)
		f := x.block(ml.node.Body.List, x.st)
		if len(f.ret) > 0 || len(f.brk) > 0 || len(f.gotos) > 0 {
			x.fail(ml.node.Pos(), "UNSUPPORTED: early exit (return/break/goto) inside an order_independent map loop")
		}
		outs := []*State{}
		if f.next != nil {
			outs = append(outs, f.next)
		}
		outs = append(outs, f.cont[""]...)
		return x.mergeAll(outs)
	}
	cmp := func(a, b *State, label string) {
		k := 0
		var objs []types.Object
		for o := range ms.vars {
			objs = append(objs, o)
		}
		sort.Slice(objs, func(i, j int) bool { return objs[i].Pos() < objs[j].Pos() })
		x.st = b
		for _, o := range objs {
			va, oka := a.vars[o]
			vb, okb := b.vars[o]
			if !oka || !okb {
				if vv, ok := o.(*types.Var); ok && vv.Pkg() != nil && vv.Parent() == vv.Pkg().Scope() {
					va, vb = x.globalVal(a, vv), x.globalVal(b, vv)
				} else {
					continue // declared inside the body
				}
			}
			x.addObl("order", fmt.Sprintf("order%d.%s:%s", ml.ord, label, o.Name()), ml.node.Pos(), x.sameValue(va, vb), "loop "+fmt.Sprint(ml.ord)+": variable "+o.Name()+" does not depend on the iteration order", nil, "")
			k++
		}
		var flds []*types.Var
		for f := range ms.fields {
			flds = append(flds, f)
		}
		sort.Slice(flds, func(i, j int) bool { return x.heapName(flds[i]) < x.heapName(flds[j]) })
		for _, f := range flds {
			ha, hb := x.heapOf(a, f), x.heapOf(b, f)
			g := fmt.Sprintf("(forall ((r Int)) (=> (and (< 0 r) (< r %s)) (= (select %s r) (select %s r))))", base.alloc, ha, hb)
			x.addObl("order", fmt.Sprintf("order%d.%s:field.%s", ml.ord, label, f.Name()), ml.node.Pos(), g, "loop "+fmt.Sprint(ml.ord)+": field "+f.Name()+" of existing objects does not depend on the iteration order", nil, "")
			k++
		}
		if ms.all {
			x.addObl("order", fmt.Sprintf("order%d.%s:unmodelled", ml.ord, label), ml.node.Pos(), "false", "loop body has unmodelled effects", nil, "")
		}
	}
	switch how {
	case "swap":
		h := base.clone()
		seen := x.ctx.Fresh("seen", fmt.Sprintf("(Array %s Bool)", ks))
		assumeInvs(h, seen)
		k1 := x.ctx.Fresh("k1", ks)
		k2 := x.ctx.Fresh("k2", ks)
		h.assume(fmt.Sprintf("(and (select %s %s) (select %s %s) (not (= %s %s)) (not (select %s %s)) (not (select %s %s)))", dom, k1, dom, k2, k1, k2, seen, k1, seen, k2))
		x.st = h
		x.vacuity(fmt.Sprintf("vacuity:order%d", ml.ord), ml.node.Pos(), "two distinct unvisited keys exist under the loop invariants")
		a := run(h.clone(), k1)
		if a != nil {
			a.ghost[seenName] = Val{fmt.Sprintf("(store %s %s true)", seen, k1), nil}
			a.ghost["seen"] = a.ghost[seenName]
			a = run(a, k2)
		}
		b := run(h.clone(), k2)
		if b != nil {
			b.ghost[seenName] = Val{fmt.Sprintf("(store %s %s true)", seen, k2), nil}
			b.ghost["seen"] = b.ghost[seenName]
			b = run(b, k1)
		}
		if a == nil || b == nil {
			x.fail(ml.node.Pos(), "UNSUPPORTED: loop body does not complete normally")
		}
		// b's path facts are added to a's (both derive from h)
		m := a.clone()
		m.pc = append(m.pc, b.pc[len(h.pc):]...)
		bb := b.clone()
		bb.pc = m.pc
		cmp(a, bb, "swap")
	case "post":
		allSeen := func(seen string) string {
			return fmt.Sprintf("(forall ((k %s)) (! (=> (select %s k) (select %s k)) :pattern ((select %s k))))", ks, dom, seen, dom)
		}
		s1 := base.clone()
		x.havocMods(ms, s1)
		se1 := x.ctx.Fresh("seen", fmt.Sprintf("(Array %s Bool)", ks))
		assumeInvs(s1, se1)
		s1.assume(allSeen(se1))
		s2 := base.clone()
		s2.pc = append([]string(nil), s1.pc...)
		x.havocMods(ms, s2)
		se2 := x.ctx.Fresh("seen", fmt.Sprintf("(Array %s Bool)", ks))
		assumeInvs(s2, se2)
		s2.assume(allSeen(se2))
		x.st = s2
		x.vacuity(fmt.Sprintf("vacuity:order%d", ml.ord), ml.node.Pos(), "the loop's exit facts are satisfiable")
		cmp(s1, s2, "post")
	}
	for _, o := range x.obls {
		if o.Kind == "order" || o.Kind == "vacuity" {
			res.Obls = append(res.Obls, o)
		}
	}
	res.Notes = x.notes
	return res
}

// sameValue: observable equality of two values (slices: same length and same elements below the length)
func (x *Exec) sameValue(a, b Val) string {
	switch u := a.Ty.Underlying().(type) {
	case *types.Slice:
		x.qcount++
		i := fmt.Sprintf("i!q%d", x.qcount)
		ea := Val{fmt.Sprintf("(select %s %s)", x.ctx.slArr(a), i), u.Elem()}
		eb := Val{fmt.Sprintf("(select %s %s)", x.ctx.slArr(b), i), u.Elem()}
		return and(eq(x.ctx.slLen(a), x.ctx.slLen(b)),
			fmt.Sprintf("(forall ((%s Int)) (=> (and (<= 0 %s) (< %s %s)) %s))", i, i, i, x.ctx.slLen(a), x.sameValue(ea, eb)))
	case *types.Map:
		x.qcount++
		k := fmt.Sprintf("k!q%d", x.qcount)
		ks := x.ctx.Sort(u.Key())
		va := Val{fmt.Sprintf("(select %s %s)", x.ctx.mpVal(a), k), u.Elem()}
		vb := Val{fmt.Sprintf("(select %s %s)", x.ctx.mpVal(b), k), u.Elem()}
		da, db := fmt.Sprintf("(select %s %s)", x.ctx.mpDom(a), k), fmt.Sprintf("(select %s %s)", x.ctx.mpDom(b), k)
		return fmt.Sprintf("(forall ((%s %s)) (and (= %s %s) (=> %s %s)))", k, ks, da, db, da, x.sameValue(va, vb))
	}
	return eq(a.S, b.S)
}

type globalWrite struct {
	name string
	pos  token.Pos
}

// globalWrites: assignments (also through index / field / pointer paths, ++/--, and address-taking) whose root is a
// package-level variable
func (v *Verifier) globalWrites(cu *FuncUnit) []globalWrite {
	info := cu.Pkg.TypesInfo
	var out []globalWrite
	root := func(e ast.Expr) *types.Var {
		for {
			switch t := ast.Unparen(e).(type) {
			case *ast.IndexExpr:
				e = t.X
			case *ast.SliceExpr:
				e = t.X
			case *ast.StarExpr:
				e = t.X
			case *ast.SelectorExpr:
				if id, ok := t.X.(*ast.Ident); ok {
					if _, isPkg := info.Uses[id].(*types.PkgName); isPkg {
						gv, _ := info.Uses[t.Sel].(*types.Var)
						if gv != nil && gv.Parent() == gv.Pkg().Scope() {
							return gv
						}
						return nil
					}
				}
				e = t.X
			case *ast.Ident:
				gv, _ := info.Uses[t].(*types.Var)
				if gv != nil && gv.Pkg() != nil && gv.Parent() == gv.Pkg().Scope() {
					return gv
				}
				return nil
			default:
				return nil
			}
		}
	}
	add := func(e ast.Expr) {
		if gv := root(e); gv != nil {
			out = append(out, globalWrite{gv.Pkg().Name() + "." + gv.Name(), e.Pos()})
		}
	}
	ast.Inspect(cu.Decl.Body, func(n ast.Node) bool {
		switch s := n.(type) {
		case *ast.AssignStmt:
			if s.Tok != token.DEFINE {
				for _, l := range s.Lhs {
					add(l)
				}
			}
		case *ast.IncDecStmt:
			add(s.X)
		case *ast.UnaryExpr:
			if s.Op == token.AND {
				add(s.X)
			}
		}
		return true
	})
	return out
}
