#!/bin/sh
# Must-fail corpus: every patch under selftest/mutants (and seeded/*/patch.diff) is applied to a scratch
# worktree of /repo; the check of the property in its name must exit 1 with a VIOLATION line.
# usage: selftest/run.sh [pattern]
export GOFLAGS=-mod=mod GOPROXY=off GOSUMDB=off GOTOOLCHAIN=local
cd /verif || exit 2
pat="${1:-}"
fail=0; n=0
for p in selftest/mutants/*${pat}*.patch seeded/*${pat}*/patch.diff; do
  [ -f "$p" ] || continue
  case "$p" in
    seeded/*) name=$(basename $(dirname "$p")); prop=$(python3 -c "import json,sys;print(json.load(open('$(dirname $p)/meta.json'))['property'])");;
    *) name=$(basename "$p" .patch); prop=$(echo "$name" | sed 's/^[^_]*_\(C[0-9]*\)_.*/\1/');;
  esac
  wt=$(mktemp -d /tmp/govc-mut-XXXXXX); rmdir "$wt"
  git -C /repo worktree add -q --detach "$wt" HEAD || exit 2
  if ! git -C "$wt" apply "/verif/$p"; then echo "SELFTEST $name: patch does not apply"; fail=1; git -C /repo worktree remove --force "$wt"; continue; fi
  out=$(VERIF_REPO="$wt" VERIF_REPLAYS="$wt/.replays" VERIF_EVID="$wt/.evidence" ./check "$prop" quick 2>&1); rc=$?
  n=$((n+1))
  if [ $rc -eq 1 ] && echo "$out" | grep -q "^VIOLATION property=$prop"; then
    echo "SELFTEST $name: killed by $(echo "$out" | grep '^VIOLATION' | head -3 | sed 's/.*obligation=//' | tr '\n' ' ')"
  elif grep -qx "$name" selftest/known_survivors.txt 2>/dev/null; then
    echo "SELFTEST $name: SURVIVED - documented (DESIGN.md S.4 / S.6), not counted"
  else
    echo "SELFTEST $name: SURVIVED (rc=$rc)"; echo "$out" | tail -5 | sed 's/^/    /'; fail=1
  fi
  git -C /repo worktree remove --force "$wt"
done
echo "selftest: $n mutants, fail=$fail"
exit $fail
